from gambatools.tm import TM


def mk_tm(spec):
    delta = {}
    for p, a, q, b, m in spec["d"]:
        delta[p, a] = (q, b, m)
    return TM(set(spec["Q"]), set(spec["S"]), set(spec["G"]), delta, spec["q0"], spec["acc"], spec["rej"], spec["blank"])


def snap_tm(T):
    return {"Q": sorted(T.Q), "S": sorted(T.Sigma), "G": sorted(T.Gamma),
            "d": sorted([p, a, q, b, m] for (p, a), (q, b, m) in T.delta.items()),
            "q0": T.q0, "acc": T.q_accept, "rej": T.q_reject, "blank": T.blank}


def canon(spec):
    return {"Q": sorted(spec["Q"]), "S": sorted(spec["S"]), "G": sorted(spec["G"]), "d": sorted([list(t) for t in spec["d"]]),
            "q0": spec["q0"], "acc": spec["acc"], "rej": spec["rej"], "blank": spec["blank"]}
