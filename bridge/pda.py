"""spec <-> gambatools PDA objects."""
from collections import defaultdict

from gambatools.pda import PDA


def mk_pda(spec):
    delta = defaultdict(set)
    from bridge.fa import fresh
    for p, a, u, q, v in spec["d"]:
        delta[fresh(p), fresh(a), fresh(u)].add((fresh(q), fresh(v)))
    return PDA(set(spec["Q"]), set(spec["S"]), set(spec["G"]), delta, spec["q0"], set(spec["F"]), spec["eps"])


def snap_pda(P):
    return {"Q": sorted(P.Q), "S": sorted(P.Sigma), "G": sorted(P.Gamma),
            "d": sorted([p, a, u, q, v] for (p, a, u), Q1 in list(P.delta.items()) for (q, v) in Q1),
            "q0": P.q0, "F": sorted(P.F), "eps": P.epsilon}


def canon(spec):
    return {"Q": sorted(spec["Q"]), "S": sorted(spec["S"]), "G": sorted(spec["G"]), "d": sorted([list(t) for t in spec["d"]]),
            "q0": spec["q0"], "F": sorted(spec["F"]), "eps": spec["eps"]}
