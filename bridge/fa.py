"""spec -> gambatools DFA/NFA objects and back (snapshots are plain data)."""
from collections import defaultdict

from gambatools.dfa import DFA
from gambatools.nfa import NFA


def fresh(x):
    """An equal string that is a different object (as the names in a parsed text are): equal names must be compared with ==, never with `is`.
    One-character strings are shared by the interpreter anyway."""
    return (x + "\x00")[:-1] if isinstance(x, str) else x


def mk_set(elems, hist=0):
    """A set with a generated history: equal sets may enumerate their elements in different orders (the order depends on the insertion order when hash
    values collide and on the size of the hash table, which never shrinks).  hist 0: set(list); 1: elements inserted in reverse order; 2: a set that was
    much larger earlier (large table); 3: both."""
    elems = list(elems)
    if hist & 1:
        elems = elems[::-1]
    if hist & 2:
        s = set("\x00dummy%d" % i for i in range(70))
        for x in elems:
            s.add(x)
        for i in range(70):
            s.discard("\x00dummy%d" % i)
        return s
    s = set()
    for x in elems:
        s.add(x)
    return s


def mk_dfa(spec, check=True):
    delta = {}
    for p, a, q in spec["d"]:
        delta[fresh(p), fresh(a)] = fresh(q)
    h = spec.get("set_hist", 0)
    if h:
        return DFA(mk_set(spec["Q"], h), mk_set(spec["S"], h), delta, spec["q0"], mk_set(spec["F"], h), check_validity=check)
    return DFA(set(spec["Q"]), set(spec["S"]), delta, spec["q0"], set(spec["F"]), check_validity=check)


def mk_nfa(spec):
    """The three transition-map representations the library itself produces."""
    rep = spec.get("rep", "dd_set")
    eps = spec["eps"]
    if rep == "dd_set":
        delta = defaultdict(set)
    elif rep == "dd_lambda":
        delta = defaultdict(lambda: set([]))
    else:
        delta = {}
        for q in spec["Q"]:
            for a in list(spec["S"]) + [eps]:
                delta[q, a] = set()
    for p, a, q in spec["d"]:
        delta[fresh(p), fresh(a)].add(fresh(q))
    return NFA(set(spec["Q"]), set(spec["S"]), delta, spec["q0"], set(spec["F"]), eps)


def snap_dfa(D):
    return {"Q": sorted(D.Q), "S": sorted(D.Sigma), "d": sorted([p, a, q] for (p, a), q in D.delta.items()),
            "q0": D.q0, "F": sorted(D.F), "eps": None}


def snap_nfa(N):
    """Observable content: the set of triples (empty entries of the mapping are invisible)."""
    return {"Q": sorted(N.Q), "S": sorted(N.Sigma),
            "d": sorted([p, a, q] for (p, a), Q1 in list(N.delta.items()) for q in Q1),
            "q0": N.q0, "F": sorted(N.F), "eps": N.epsilon}


def canon(spec):
    """Canonical observable content of a spec (for before/after comparison)."""
    return {"Q": sorted(spec["Q"]), "S": sorted(spec["S"]), "d": sorted([list(t) for t in spec["d"]]),
            "q0": spec["q0"], "F": sorted(spec["F"]), "eps": spec.get("eps")}
