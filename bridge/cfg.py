"""spec <-> gambatools CFG objects."""
from gambatools.cfg import CFG, Variable, Terminal, Rule, Alternative


def mk_cfg(spec, epsilon=None, check=True):
    V = set(Variable(v) for v in spec["V"])
    vs = set(spec["V"])
    T = set(Terminal(t) for t in spec["T"])
    R = [Rule(Variable(A), Alternative([Variable(x) if x in vs else Terminal(x) for x in rhs])) for A, rhs in spec["R"]]
    if epsilon is None:
        return CFG(V, T, R, Variable(spec["S"]), check_validity=check)
    return CFG(V, T, R, Variable(spec["S"]), Terminal(epsilon), check_validity=check)


def snap_cfg(G):
    from harness.engine import Fail
    for v in list(G.V) + [G.S] + list(G.Sigma) + [r.variable for r in G.R] + [x for r in G.R for x in r.alternative.symbols]:
        if not isinstance(v, str):
            raise Fail("invalid_grammar", "the grammar contains the non-string symbol %r" % (v,))
    return {"V": sorted(str(v) for v in G.V), "T": sorted(str(t) for t in G.Sigma),
            "R": [[str(r.variable), [str(x) for x in r.alternative.symbols]] for r in G.R], "S": str(G.S)}


def typed_ok(G):
    """Every right-hand-side symbol object is a Variable iff its name is in V (class discipline)."""
    names = set(str(v) for v in G.V)
    for r in G.R:
        for x in r.alternative.symbols:
            if isinstance(x, Variable) != (str(x) in names):
                return "symbol %r in a rule for %r has the wrong class" % (x, r.variable)
    return None


def canon(spec):
    return {"V": sorted(spec["V"]), "T": sorted(spec["T"]), "R": [[A, list(rhs)] for A, rhs in spec["R"]], "S": spec["S"]}
