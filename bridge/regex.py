"""tree <-> gambatools.regexp objects."""
from gambatools import regexp as R


def mk(t):
    k = t[0]
    if k == "0":
        return R.Zero()
    if k == "1":
        return R.One()
    if k == "s":
        return R.Symbol(t[1])
    if k == "*":
        return R.Iteration(mk(t[1]))
    if k == "+":
        return R.Sum(mk(t[1]), mk(t[2]))
    if k == ".":
        return R.Concat(mk(t[1]), mk(t[2]))
    raise ValueError(t)


def mk_shared(t, memo=None):
    """Like mk, but structurally equal subtrees become the *same* object (a = Symbol('a'); Concat(a, Concat(b, a))): expressions are values,
    and code that builds them by hand shares subterms."""
    memo = {} if memo is None else memo
    key = repr(t)
    if key not in memo:
        k = t[0]
        if k in ("0", "1", "s"):
            memo[key] = mk(t)
        elif k == "*":
            memo[key] = R.Iteration(mk_shared(t[1], memo))
        elif k == "+":
            memo[key] = R.Sum(mk_shared(t[1], memo), mk_shared(t[2], memo))
        else:
            memo[key] = R.Concat(mk_shared(t[1], memo), mk_shared(t[2], memo))
    return memo[key]


def snap(r):
    if isinstance(r, R.Zero):
        return ["0"]
    if isinstance(r, R.One):
        return ["1"]
    if isinstance(r, R.Symbol):
        return ["s", r.symbol]
    if isinstance(r, R.Iteration):
        return ["*", snap(r.operand)]
    if isinstance(r, R.Sum):
        return ["+", snap(r.left), snap(r.right)]
    if isinstance(r, R.Concat):
        return [".", snap(r.left), snap(r.right)]
    raise TypeError("not a regular expression object: %r" % (r,))
