#!/usr/bin/env python3
"""Oracle self-test: cross-validates every reference model against a second, differently
structured implementation of the same semantics.  Exit 0 = agree, 1 = disagreement."""
import os
import sys

ROOT = os.path.dirname(os.path.dirname(os.path.abspath(__file__)))
sys.path.insert(0, ROOT)


def main():
    quick = "--quick" in sys.argv
    from harness import selftests
    return selftests.run(quick)


if __name__ == "__main__":
    sys.exit(main())
