"""Deterministic step budget for termination clauses: counts 'line' trace events in library frames."""
import sys


class BudgetExceeded(BaseException):
    def __init__(self, events, frame_info):
        super().__init__("line-event budget exceeded after %d events" % events)
        self.events = events
        self.frame_info = frame_info


def run_with_budget(fn, *args, max_events=3000000, marker="/gambatools/"):
    """Returns (result, events).  Raises BudgetExceeded if the library executes more than max_events lines."""
    count = [0]

    def local(frame, event, arg):
        if event == "line":
            count[0] += 1
            if count[0] > max_events:
                info = {"function": frame.f_code.co_name, "line": frame.f_lineno}
                raise BudgetExceeded(count[0], info)
        return local

    def tracer(frame, event, arg):
        if marker in frame.f_code.co_filename:
            return local
        return None

    old = sys.gettrace()
    sys.settrace(tracer)
    try:
        res = fn(*args)
    finally:
        sys.settrace(old)
    return res, count[0]
