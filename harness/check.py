#!/usr/bin/env python3
"""Entry point:  check.py <Cxx> [--tier quick|thorough] [--replay FILE] [--workers N] [--clauses a,b]

exit 0: property held on everything explored (known findings only printed)
exit 1: at least one line  VIOLATION property=<id> replay=<path>
exit 2: harness problem (never reported as a violation)
"""
import argparse
import glob
import importlib
import json
import os
import re
import shutil
import subprocess
import sys
import time

ROOT = os.path.dirname(os.path.dirname(os.path.abspath(__file__)))
sys.path.insert(0, ROOT)
DEPS = os.path.join(ROOT, ".deps")
if os.path.isdir(DEPS):
    sys.path.append(DEPS)
PY = sys.executable
REPO_SRC = os.environ.get("GAMBATOOLS_SRC", "/repo/src")


def hash_seeds(vseed, n):
    return [0] + [(vseed * 7919 + 104729 * i) % (2 ** 32) for i in range(1, n)]


def child_env(hashseed):
    env = dict(os.environ)
    env["PYTHONHASHSEED"] = str(hashseed)
    env["PYTHONPATH"] = os.pathsep.join([REPO_SRC, ROOT] + ([DEPS] if os.path.isdir(DEPS) else []) + ([env["PYTHONPATH"]] if env.get("PYTHONPATH") else []))
    env["PYTHONDONTWRITEBYTECODE"] = "1"
    env["GAMBATOOLS_VERIF"] = "1"
    return env


def load_known():
    with open(os.path.join(ROOT, "known_findings.json"), encoding="utf8") as f:
        return json.load(f)


def slug(s):
    return re.sub(r"[^A-Za-z0-9_.-]+", "_", s)[:60]


def run_single(prop, clause_name, case):
    """Run one case of one clause in this process.  Returns None or the Fail."""
    sys.path.insert(0, REPO_SRC)
    from harness import engine
    mod = importlib.import_module("props.%s" % prop.lower())
    clause = next(c for c in mod.CLAUSES if c.name == clause_name)
    try:
        clause.run(case)
    except engine.Fail as f:
        return f
    return None


def replay_main(prop, path):
    with open(path, encoding="utf8") as f:
        rec = json.load(f)
    if "hashseeds" in rec and os.environ.get("_VERIF_REPLAY_CHILD") != "1":
        outs = []
        for h in rec["hashseeds"]:
            env = child_env(h)
            env["_VERIF_REPLAY_CHILD"] = "1"
            env["_VERIF_REPLAY_SIG"] = "1"
            p = subprocess.run([PY, os.path.abspath(__file__), prop, "--replay", path], env=env, capture_output=True, text=True)
            outs.append([l for l in p.stdout.splitlines() if l.startswith("SIG ")][:1] or [p.stdout[-300:]])
        if outs[0] == outs[1]:
            print("replay passes: %s (same signature under both hash seeds)" % path)
            return 0
        print("replay fails: signatures differ: %s vs %s" % (outs[0], outs[1]))
        print("VIOLATION property=%s replay=%s" % (prop, path))
        return 1
    if os.environ.get("_VERIF_REPLAY_SIG") == "1":
        sys.path.insert(0, REPO_SRC)
        mod = importlib.import_module("props.%s" % prop.lower())
        clause = next(c for c in mod.CLAUSES if c.name == rec["clause"])
        try:
            info = clause.run(rec["case"]) or {}
            print("SIG " + json.dumps(info.get("sig"), default=str, sort_keys=True))
        except Exception as e:
            print("SIG exception %s" % e)
        return 0
    want = str(rec.get("hashseed", "0"))
    if os.environ.get("PYTHONHASHSEED") != want or os.environ.get("_VERIF_REPLAY_CHILD") != "1":
        env = child_env(want)
        env["_VERIF_REPLAY_CHILD"] = "1"
        return subprocess.call([PY, os.path.abspath(__file__), prop, "--replay", path], env=env)
    f = run_single(prop, rec["clause"], rec["case"])
    if f is None:
        print("replay passes: %s" % path)
        return 0
    known = load_known().get("findings", [])
    mod = importlib.import_module("props.%s" % prop.lower())
    for k in known:
        if k["property"] == prop and k["clause"] == rec["clause"] and mod.KNOWN_PREDICATES[k["predicate"]](rec["case"]):
            print("KNOWN-FINDING: property=%s %s" % (prop, k["what"]))
            return 0
    print("replay fails: %s: %s" % (f.sub, f.msg))
    print("VIOLATION property=%s replay=%s" % (prop, path))
    return 1


def main():
    ap = argparse.ArgumentParser()
    ap.add_argument("prop")
    ap.add_argument("--tier", default=os.environ.get("VERIF_TIER", "quick"))
    ap.add_argument("--replay")
    ap.add_argument("--workers", type=int)
    ap.add_argument("--clauses", default="")
    ap.add_argument("--no-selftest", action="store_true")
    args = ap.parse_args()
    prop = args.prop.upper()
    if args.replay:
        sys.exit(replay_main(prop, args.replay))
    tier = args.tier if args.tier in ("quick", "thorough") else "quick"
    try:
        vseed = int(os.environ.get("VERIF_SEED", "1"))
    except ValueError:
        vseed = 1
    nworkers = args.workers or (6 if tier == "quick" else 16)
    t0 = time.time()
    errors = []
    violations = []   # (clause, bucket, path)
    lines = []

    # 0. oracle self-test (reduced)
    if not args.no_selftest:
        rc = subprocess.call([PY, os.path.join(ROOT, "harness", "selftest.py"), "--quick"], env=child_env(0))
        if rc != 0:
            print("HARNESS-ERROR: oracle self-test failed")
            sys.exit(2)

    work = os.path.join(ROOT, ".work", "%s-%d" % (prop, os.getpid()))
    os.makedirs(work, exist_ok=True)
    newdir = os.path.join(os.environ.get("VERIF_NEW_REPLAYS", os.path.join(ROOT, "replays", "new")), prop)
    known_all = load_known()
    known = [k for k in known_all.get("findings", []) if k["property"] == prop]

    try:
        # 1. regression tier: stored replays + known-finding witnesses
        replays = sorted(glob.glob(os.path.join(ROOT, "replays", prop, "*.json")))
        replays_passing = 0
        for path in replays:
            p = subprocess.run([PY, os.path.abspath(__file__), prop, "--replay", path], capture_output=True, text=True, env=child_env(0))
            if p.returncode == 0:
                replays_passing += 1
                for ln in p.stdout.splitlines():
                    if ln.startswith("KNOWN-FINDING:"):
                        lines.append(ln)
            elif p.returncode == 1:
                rel = os.path.relpath(path, ROOT)
                violations.append(("replay", os.path.basename(path), rel))
            else:
                errors.append("replay %s: exit %d: %s" % (path, p.returncode, (p.stdout + p.stderr)[-800:]))
        for k in known:
            wpath = os.path.join(work, "known-%s.json" % slug(k["id"]))
            with open(wpath, "w", encoding="utf8") as f:
                json.dump({"property": prop, "clause": k["clause"], "case": k["witness"], "hashseed": k.get("hashseed", 0)}, f, ensure_ascii=False)
            p = subprocess.run([PY, os.path.abspath(__file__), prop, "--replay", wpath], capture_output=True, text=True, env=child_env(0))
            if "KNOWN-FINDING:" in p.stdout:
                lines.append("KNOWN-FINDING: property=%s %s" % (prop, k["what"]))
            elif p.returncode == 0:
                lines.append("NOTE: known finding %s no longer reproduces on its witness" % k["id"])
            else:
                errors.append("known-finding witness %s: exit %d: %s" % (k["id"], p.returncode, (p.stdout + p.stderr)[-800:]))

        # 2. generated search, one process per hash seed
        seeds = hash_seeds(vseed, nworkers)
        procs = []
        for i, h in enumerate(seeds):
            cmd = [PY, os.path.join(ROOT, "harness", "worker.py"), prop, tier, str(i), str(nworkers), str(vseed), work, args.clauses]
            procs.append(subprocess.Popen(cmd, env=child_env(h), stdout=subprocess.PIPE, stderr=subprocess.STDOUT, text=True))
        frags = []
        for i, p in enumerate(procs):
            out, _ = p.communicate()
            fpath = os.path.join(work, "w%d.json" % i)
            if p.returncode != 0 or not os.path.exists(fpath):
                errors.append("worker %d exit %s: %s" % (i, p.returncode, (out or "")[-1500:]))
                continue
            with open(fpath, encoding="utf8") as f:
                frags.append(json.load(f))

        # 3. merge
        clauses = {}
        assumptions = []
        for fr in frags:
            errors.extend(fr.get("errors", []))
            assumptions = fr.get("assumptions", assumptions)
            for c in fr["clauses"]:
                m = clauses.setdefault(c["clause"], {"evaluations": 0, "nt": set(), "excluded_known": 0, "excluded_bucket": 0,
                                                     "classes": {}, "samples": [], "exhaustive": None, "rule": c["rule"],
                                                     "max_line_events": 0, "wall_s": 0.0, "inconclusive": 0})
                s = c["stats"]
                m["evaluations"] += s["evaluations"]
                m["excluded_known"] += s["excluded_known"]
                m["excluded_bucket"] += s["excluded_bucket"]
                m["inconclusive"] += s.get("inconclusive", 0)
                if s.get("stopped_by_watchdog"):
                    errors.append("clause %s: given up in one worker after %d cases hit the per-case wall-clock watchdog (inconclusive)" % (c["clause"], s.get("inconclusive", 0)))
                m["max_line_events"] = max(m["max_line_events"], s.get("max_line_events", 0))
                m["wall_s"] = max(m["wall_s"], c.get("wall_s", 0))
                m["nt"].update(c["nt_digests"])
                for k2, v in s["classes"].items():
                    m["classes"][k2] = m["classes"].get(k2, 0) + v
                if len(m["samples"]) < 3:
                    m["samples"].extend(c["samples"][: 3 - len(m["samples"])])
                if s.get("exhaustive"):
                    e = m["exhaustive"] or {"bound": s["exhaustive"]["bound"], "cases": 0, "exhaustive": True}
                    e["cases"] += s["exhaustive"]["cases_this_worker"]
                    m["exhaustive"] = e
                errors.extend(c["errors"])
                for dg, rec in c.get("sigs", {}).items():
                    m.setdefault("sigs", {}).setdefault(dg, []).append((fr["hashseed"], rec["sig"], rec["case"]))
                for fl in c["failures"]:
                    key = (c["clause"], fl["bucket"])
                    if any((v[0], v[1]) == key for v in violations):
                        continue
                    os.makedirs(newdir, exist_ok=True)
                    from harness.engine import digest
                    path = os.path.join(newdir, "%s-%s-%s.json" % (slug(c["clause"]), slug(fl["bucket"]), digest(fl["case"])))
                    with open(path, "w", encoding="utf8") as f:
                        json.dump({"property": prop, "clause": c["clause"], "bucket": fl["bucket"], "case": fl["case"], "msg": fl["msg"],
                                   "details": fl.get("details"), "hashseed": fr["hashseed"], "tier": tier, "seed": vseed}, f, ensure_ascii=False, indent=1, default=str)
                    violations.append((c["clause"], fl["bucket"], os.path.relpath(path, ROOT)))
                    lines.append("FAIL %s/%s [%s] hashseed=%s: %s" % (prop, c["clause"], fl["bucket"], fr["hashseed"], fl["msg"]))

        # 3b. cross-process comparison of result signatures (same case, different PYTHONHASHSEED)
        for cname, m in clauses.items():
            sigs = m.get("sigs")
            if not sigs:
                continue
            compared = unmatched = 0
            reported = set()
            for dg, lst in sigs.items():
                if len(lst) < 2:
                    unmatched += 1
                    continue
                compared += 1
                h0, s0, case = lst[0]
                for h, sg, _ in lst[1:]:
                    if sg != s0:
                        bucket = "hashseed_dependent:" + str(case.get("op", ""))
                        if bucket in reported:
                            continue
                        reported.add(bucket)
                        os.makedirs(newdir, exist_ok=True)
                        path = os.path.join(newdir, "%s-%s-%s.json" % (slug(cname), slug(bucket), dg))
                        with open(path, "w", encoding="utf8") as f:
                            json.dump({"property": prop, "clause": cname, "bucket": bucket, "case": case, "hashseeds": [h0, h], "signatures": [s0, sg],
                                       "msg": "result differs between PYTHONHASHSEED=%s and %s" % (h0, h), "tier": tier, "seed": vseed}, f, ensure_ascii=False, indent=1, default=str)
                        violations.append((cname, bucket, os.path.relpath(path, ROOT)))
                        lines.append("FAIL %s/%s [%s]: result signature differs between PYTHONHASHSEED=%s and %s: %s vs %s" % (prop, cname, bucket, h0, h, json.dumps(s0, default=str)[:120], json.dumps(sg, default=str)[:120]))
            m["classes"]["cross_process_cases_compared"] = compared
            m["classes"]["cross_process_cases_unmatched"] = unmatched
            if compared == 0:
                errors.append("clause %s: no case was evaluated by two workers (generation not reproducible across hash seeds?)" % cname)

        # 4. evidence
        evaluations = sum(m["evaluations"] for m in clauses.values())
        distinct_nt = sum(len(m["nt"]) for m in clauses.values())
        samples = []
        for m in clauses.values():
            samples.extend(m["samples"][:2])
        ex_tiers = [dict(m["exhaustive"], clause=n) for n, m in clauses.items() if m["exhaustive"]]
        ev = {
            "property_id": prop, "tier": tier, "seed": vseed, "level": "exploration",
            "wall_s": round(time.time() - t0, 2), "violations": len(violations),
            "coverage": {
                "evaluations": evaluations, "distinct_nontrivial": distinct_nt,
                "rule": " || ".join("%s: %s" % (n, m["rule"]) for n, m in clauses.items()),
                "samples": samples[:12],
                "clauses": {n: {"evaluations": m["evaluations"], "distinct_nontrivial": len(m["nt"]), "excluded_known": m["excluded_known"],
                                "excluded_by_found_bucket": m["excluded_bucket"], "inconclusive_watchdog": m["inconclusive"], "classes": m["classes"],
                                "max_line_events": m["max_line_events"], "slowest_worker_s": m["wall_s"]} for n, m in clauses.items()},
                "hash_seeds": seeds, "exhaustive_tiers": ex_tiers, "exhaustive": False,
                "replays_run": len(replays), "replays_passing": replays_passing,
                "known_findings_listed": [k["id"] for k in known],
                "harness_errors": errors[:5],
            },
            "assumptions": assumptions,
        }
        evdir = os.environ.get("VERIF_EVIDENCE_DIR", os.path.join(ROOT, "evidence"))
        os.makedirs(evdir, exist_ok=True)
        with open(os.path.join(evdir, "%s.json" % prop), "w", encoding="utf8") as f:
            json.dump(ev, f, ensure_ascii=False, indent=1)

        for n, m in clauses.items():
            if m["inconclusive"]:
                lines.append("INCONCLUSIVE: clause %s: %d of %d cases hit the per-case wall-clock watchdog (not counted as pass or violation)" % (n, m["inconclusive"], m["evaluations"]))
                if m["inconclusive"] * 20 > m["evaluations"]:
                    errors.append("clause %s: more than 5%% of the cases were inconclusive" % n)
        # generator-drift warning
        for n, m in clauses.items():
            # a cross-process clause evaluates the same cases in every worker: count them once
            per = (m["evaluations"] - m["excluded_known"]) / (len(seeds) if m.get("sigs") else 1)
            if m["evaluations"] >= 50 and len(m["nt"]) * 20 < per and not m["exhaustive"] and not n.endswith(("_fuzz", "_cov")):
                lines.append("WARNING: clause %s: only %d distinct non-trivial of %d evaluations" % (n, len(m["nt"]), m["evaluations"]))
    finally:
        shutil.rmtree(work, ignore_errors=True)

    for ln in lines:
        print(ln)
    print("%s tier=%s seed=%d evaluations=%d distinct_nontrivial=%d wall=%.1fs" % (prop, tier, vseed, evaluations, distinct_nt, time.time() - t0))
    if violations:
        for (c, b, path) in violations:
            print("VIOLATION property=%s replay=%s" % (prop, path))
        sys.exit(1)
    if errors:
        for e in errors[:10]:
            print("HARNESS-ERROR: %s" % e)
        sys.exit(2)
    sys.exit(0)


if __name__ == "__main__":
    main()
