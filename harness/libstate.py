"""Process-global state of the library under test, reset at the top of a case ("reset the tested code's global and static
state at the top of every iteration").  Currently: identifier generators that live in default arguments or module globals.
A case chooses the value, so 'any number of earlier calls' stays a generated dimension and a case is a pure function of
its description."""
import sys
import types


def set_identifier_generators(index):
    """Set the counter of every IdentifierGenerator-like object (attributes `index` and `generate`) that is reachable as a
    default argument of a function, or as a global, of a gambatools module.  Returns how many were found."""
    n = 0
    for name, mod in list(sys.modules.items()):
        if not name.startswith("gambatools") or mod is None:
            continue
        for obj in list(vars(mod).values()):
            cands = []
            if isinstance(obj, types.FunctionType) and obj.__module__ == name:
                cands = list(obj.__defaults__ or ()) + list((obj.__kwdefaults__ or {}).values())
            elif hasattr(obj, "generate") and hasattr(obj, "index") and not isinstance(obj, type):
                cands = [obj]
            for c in cands:
                if hasattr(c, "generate") and isinstance(getattr(c, "index", None), int):
                    c.index = index
                    n += 1
    return n
