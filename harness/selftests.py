"""Cross-validation of the reference models (no library involved)."""
import glob
import os
import random
import re

ROOT = os.path.dirname(os.path.dirname(os.path.abspath(__file__)))


def check_no_library_import():
    bad = []
    for path in glob.glob(os.path.join(ROOT, "ref", "*.py")):
        with open(path, encoding="utf8") as f:
            for i, line in enumerate(f):
                if re.match(r"\s*(import|from)\s+gambatools", line):
                    bad.append("%s:%d" % (path, i + 1))
    return bad


def rand_nfa(rng, n, S, eps="ε"):
    Q = ["s%d" % i for i in range(n)]
    d = set()
    for _ in range(rng.randint(0, 3 * n)):
        d.add((rng.choice(Q), rng.choice(S + [eps, eps]), rng.choice(Q)))
    return {"Q": Q, "S": S, "d": [list(t) for t in sorted(d)], "q0": Q[0], "F": [q for q in Q if rng.random() < 0.4], "eps": eps}


def test_fa(rng, rounds):
    from ref import fa
    for _ in range(rounds):
        S = rng.choice([["a"], ["a", "b"], []])
        s1 = rand_nfa(rng, rng.randint(1, 4), S)
        s2 = rand_nfa(rng, rng.randint(1, 4), S)
        ws = fa.words_upto(S, 5)
        A, B = fa.determinise(s1), fa.determinise(s2)
        for w in ws:
            a = fa.nfa_accepts(s1, w)
            if a != fa.nfa_accepts_bruteforce(s1, w) or a != fa.accepts_rdfa(A, w):
                return "fa: acceptance references disagree on %r %r" % (s1, w)
        # equiv versus brute force up to the product size
        bound = len(A["Q"]) * len(B["Q"])
        w = fa.equiv(A, B)
        diff = [x for x in fa.words_upto(S, min(bound, 6)) if fa.nfa_accepts(s1, x) != fa.nfa_accepts(s2, x)]
        if w is None and diff:
            return "fa: equiv says equal but %r differs" % diff[0]
        if w is not None and (fa.nfa_accepts(s1, w) == fa.nfa_accepts(s2, w)):
            return "fa: equiv witness %r does not distinguish" % w
        if w is not None and diff and len(w) > len(diff[0]):
            return "fa: equiv witness not shortest"
        # canonical_min is a language signature
        if (fa.canonical_min(A) == fa.canonical_min(B)) != (w is None):
            return "fa: canonical_min inconsistent with equiv"
        # language operations against word-level definitions
        for name, C, pred in (
            ("union", fa.product(A, B, lambda x, y: x or y), lambda x: fa.nfa_accepts(s1, x) or fa.nfa_accepts(s2, x)),
            ("reverse", fa.reverse(A), lambda x: fa.nfa_accepts(s1, x[::-1])),
            ("no_prefix", fa.no_prefix(A), lambda x: fa.nfa_accepts(s1, x) and not any(fa.nfa_accepts(s1, x[:i]) for i in range(len(x)))),
            ("complement", fa.complement(A), lambda x: not fa.nfa_accepts(s1, x)),
        ):
            for x in ws:
                if fa.accepts_rdfa(C, x) != pred(x):
                    return "fa: %s disagrees with its word-level definition on %r" % (name, x)
        NE = fa.no_extend(A)
        longer = fa.words_upto(S, 5 + len(A["Q"]))
        acc = [x for x in longer if fa.accepts_rdfa(A, x)]
        for x in fa.words_upto(S, 4):
            want = fa.accepts_rdfa(A, x) and not any(y.startswith(x) and y != x for y in acc)
            if fa.accepts_rdfa(NE, x) != want:
                return "fa: no_extend disagrees on %r" % x
        # nfa constructions
        U, C, St = fa.nfa_union(s1, s2), fa.nfa_concat(s1, s2), fa.nfa_star(s1)
        for x in fa.words_upto(S, 4):
            a1 = fa.nfa_accepts(s1, x)
            if fa.nfa_accepts(U, x) != (a1 or fa.nfa_accepts(s2, x)):
                return "fa: nfa_union wrong on %r" % x
            if fa.nfa_accepts(C, x) != any(fa.nfa_accepts(s1, x[:i]) and fa.nfa_accepts(s2, x[i:]) for i in range(len(x) + 1)):
                return "fa: nfa_concat wrong on %r" % x
            def star(y):
                return y == "" or any(fa.nfa_accepts(s1, y[:i]) and star(y[i:]) for i in range(1, len(y) + 1))
            if fa.nfa_accepts(St, x) != star(x):
                return "fa: nfa_star wrong on %r" % x
        # iso: a renamed copy is isomorphic; moore classes count equals canonical size on reachable part
        ren = {q: ("r", i) for i, q in enumerate(A["Q"])}
        A2 = {"Q": [ren[q] for q in A["Q"]], "S": A["S"], "d": {(ren[p], a): ren[q] for (p, a), q in A["d"].items()},
              "q0": ren[A["q0"]], "F": {ren[q] for q in A["F"]}}
        if not fa.iso_reachable(A, A2):
            return "fa: renamed copy not isomorphic"
        if fa.n_classes(A, fa.reachable(A)) != len(fa.canonical_min(A)[1]):
            return "fa: class count differs from canonical minimal size"
    return None


def test_regex(rng, rounds):
    from ref import fa, regex as RX

    def rnd(depth):
        k = rng.randint(0, 9)
        if depth == 0 or k < 3:
            return rng.choice([["0"], ["1"], ["s", "a"], ["s", "b"], ["s", "a"]])
        if k < 5:
            return ["*", rnd(depth - 1)]
        return [rng.choice("+."), rnd(depth - 1), rnd(depth - 1)]

    def naive(r, w):
        t = r[0]
        if t == "0":
            return False
        if t == "1":
            return w == ""
        if t == "s":
            return w == r[1]
        if t == "+":
            return naive(r[1], w) or naive(r[2], w)
        if t == ".":
            return any(naive(r[1], w[:i]) and naive(r[2], w[i:]) for i in range(len(w) + 1))
        return w == "" or any(naive(r[1], w[:i]) and naive(r, w[i:]) for i in range(1, len(w) + 1))

    for _ in range(rounds):
        r = rnd(4)
        S = ["a", "b"]
        A, B = RX.to_dfa(r, S), RX.to_dfa2(r, S)
        if fa.equiv(A, B) is not None:
            return "regex: derivative and Glushkov automata differ for %r" % (r,)
        for w in fa.words_upto(S, 4):
            if RX.matches(r, w) != naive(r, w) or RX.matches(r, w) != fa.accepts_rdfa(A, w):
                return "regex: matches/naive/dfa disagree for %r on %r" % (r, w)
    return None


def test_cfg(rng, rounds):
    from ref import cfg as RC
    for _ in range(rounds):
        V = ["S", "A", "B"][: rng.randint(1, 3)]
        R = []
        for A in V:
            for _ in range(rng.randint(0 if A != "S" else 1, 3)):
                R.append([A, [rng.choice(V + ["a", "b"]) for _ in range(rng.randint(0, 3))]])
        spec = {"V": V, "T": ["a", "b"], "R": R, "S": "S"}
        L = RC.lang_upto(spec, 4)
        ws = [""]
        layer = [""]
        for _ in range(4):
            layer = [w + a for w in layer for a in "ab"]
            ws += layer
        for w in ws:
            if RC.accepts(spec, w) != (w in L):
                return "cfg: span fixpoint and word-set fixpoint disagree for %r on %r" % (spec, w)
        red = RC.reduce(spec)
        if RC.lang_upto(red, 4) != L:
            return "cfg: reduce changes the language of %r" % (spec,)
    return None


def test_pda(rng, rounds):
    from ref import pda as RP
    for _ in range(rounds):
        Q = ["p", "q", "r"][: rng.randint(1, 3)]
        G = ["X", "$"][: rng.randint(1, 2)]
        d = set()
        for _ in range(rng.randint(1, 6)):
            k = rng.randint(0, 9)
            g1, g2 = rng.choice(G), rng.choice(G)
            u, v = ("", g1) if k < 4 else ((g1, "") if k < 7 else (("", "") if k == 7 else (g1, g2)))
            d.add((rng.choice(Q), rng.choice(["a", "b", "", ""]), u, rng.choice(Q), v))
        spec = {"Q": Q, "S": ["a", "b"], "G": G, "d": [list(t) for t in sorted(d)], "q0": Q[0], "F": [q for q in Q if rng.random() < 0.5], "eps": ""}
        ws = ["", "a", "b", "aa", "ab", "ba", "bb", "aab", "abb", "aba"]
        for w in ws:
            a = RP.accepts(spec, w)
            b = RP.accepts_bounded(spec, w, 7)
            if a != b:
                return "pda: saturation %r vs bounded-stack search %r for %r on %r" % (a, b, spec, w)
            if RP.accepts_with_empty_stack(spec, w) and not a:
                return "pda: empty-stack acceptance without acceptance"
    return None


def test_tm(rng, rounds):
    from ref import tm as RT
    for _ in range(rounds):
        Q = ["s", "t", "u", "acc", "rej"][rng.randint(0, 2):]
        G = ["a", "b", "_"]
        d = []
        for p in Q[:-2]:
            for a in G:
                if rng.random() < 0.75:
                    d.append([p, a, rng.choice(Q), rng.choice(G), rng.choice("LR")])
        spec = {"Q": Q, "S": ["a", "b"], "G": G, "d": d, "q0": Q[0], "acc": "acc", "rej": "rej", "blank": "_"}
        for w in ["", "a", "b", "ab", "ba", "aab", "bbb"]:
            for k in (0, 1, 2, 5, 30):
                v, tr = RT.run(spec, w, k)
                if v != RT.run2(spec, w, k):
                    return "tm: simulators disagree on %r %r %r" % (spec, w, k)
                if v is not None and RT.run(spec, w, k + 7)[0] != v:
                    return "tm: verdict not monotone"
    return None


TESTS = [("tm", test_tm), ("fa", test_fa), ("regex", test_regex), ("cfg", test_cfg), ("pda", test_pda)]


def run(quick):
    bad = check_no_library_import()
    if bad:
        print("SELFTEST: reference modules import the library: %s" % bad)
        return 1
    import importlib
    rng = random.Random(12345)   # self-test of the harness only; not part of any property
    for name, fn in TESTS:
        msg = fn(rng, 25 if quick else 400)
        if msg:
            print("SELFTEST disagreement: %s" % msg)
            return 1
    if not quick:
        print("selftest ok")
    return 0
