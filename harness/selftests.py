"""Cross-validation of the reference models (no library involved)."""
import glob
import os
import random
import re

ROOT = os.path.dirname(os.path.dirname(os.path.abspath(__file__)))


def check_no_library_import():
    bad = []
    for path in glob.glob(os.path.join(ROOT, "ref", "*.py")):
        with open(path, encoding="utf8") as f:
            for i, line in enumerate(f):
                if re.match(r"\s*(import|from)\s+gambatools", line):
                    bad.append("%s:%d" % (path, i + 1))
    return bad


def rand_nfa(rng, n, S, eps="ε"):
    Q = ["s%d" % i for i in range(n)]
    d = set()
    for _ in range(rng.randint(0, 3 * n)):
        d.add((rng.choice(Q), rng.choice(S + [eps, eps]), rng.choice(Q)))
    return {"Q": Q, "S": S, "d": [list(t) for t in sorted(d)], "q0": Q[0], "F": [q for q in Q if rng.random() < 0.4], "eps": eps}


def test_fa(rng, rounds):
    from ref import fa
    for _ in range(rounds):
        S = rng.choice([["a"], ["a", "b"], []])
        s1 = rand_nfa(rng, rng.randint(1, 4), S)
        s2 = rand_nfa(rng, rng.randint(1, 4), S)
        ws = fa.words_upto(S, 5)
        A, B = fa.determinise(s1), fa.determinise(s2)
        for w in ws:
            a = fa.nfa_accepts(s1, w)
            if a != fa.nfa_accepts_bruteforce(s1, w) or a != fa.accepts_rdfa(A, w):
                return "fa: acceptance references disagree on %r %r" % (s1, w)
        # equiv versus brute force up to the product size
        bound = len(A["Q"]) * len(B["Q"])
        w = fa.equiv(A, B)
        diff = [x for x in fa.words_upto(S, min(bound, 6)) if fa.nfa_accepts(s1, x) != fa.nfa_accepts(s2, x)]
        if w is None and diff:
            return "fa: equiv says equal but %r differs" % diff[0]
        if w is not None and (fa.nfa_accepts(s1, w) == fa.nfa_accepts(s2, w)):
            return "fa: equiv witness %r does not distinguish" % w
        if w is not None and diff and len(w) > len(diff[0]):
            return "fa: equiv witness not shortest"
        # canonical_min is a language signature
        if (fa.canonical_min(A) == fa.canonical_min(B)) != (w is None):
            return "fa: canonical_min inconsistent with equiv"
        # language operations against word-level definitions
        for name, C, pred in (
            ("union", fa.product(A, B, lambda x, y: x or y), lambda x: fa.nfa_accepts(s1, x) or fa.nfa_accepts(s2, x)),
            ("reverse", fa.reverse(A), lambda x: fa.nfa_accepts(s1, x[::-1])),
            ("no_prefix", fa.no_prefix(A), lambda x: fa.nfa_accepts(s1, x) and not any(fa.nfa_accepts(s1, x[:i]) for i in range(len(x)))),
            ("complement", fa.complement(A), lambda x: not fa.nfa_accepts(s1, x)),
        ):
            for x in ws:
                if fa.accepts_rdfa(C, x) != pred(x):
                    return "fa: %s disagrees with its word-level definition on %r" % (name, x)
        NE = fa.no_extend(A)
        longer = fa.words_upto(S, 5 + len(A["Q"]))
        acc = [x for x in longer if fa.accepts_rdfa(A, x)]
        for x in fa.words_upto(S, 4):
            want = fa.accepts_rdfa(A, x) and not any(y.startswith(x) and y != x for y in acc)
            if fa.accepts_rdfa(NE, x) != want:
                return "fa: no_extend disagrees on %r" % x
        # nfa constructions
        U, C, St = fa.nfa_union(s1, s2), fa.nfa_concat(s1, s2), fa.nfa_star(s1)
        for x in fa.words_upto(S, 4):
            a1 = fa.nfa_accepts(s1, x)
            if fa.nfa_accepts(U, x) != (a1 or fa.nfa_accepts(s2, x)):
                return "fa: nfa_union wrong on %r" % x
            if fa.nfa_accepts(C, x) != any(fa.nfa_accepts(s1, x[:i]) and fa.nfa_accepts(s2, x[i:]) for i in range(len(x) + 1)):
                return "fa: nfa_concat wrong on %r" % x
            def star(y):
                return y == "" or any(fa.nfa_accepts(s1, y[:i]) and star(y[i:]) for i in range(1, len(y) + 1))
            if fa.nfa_accepts(St, x) != star(x):
                return "fa: nfa_star wrong on %r" % x
        # iso: a renamed copy is isomorphic; moore classes count equals canonical size on reachable part
        ren = {q: ("r", i) for i, q in enumerate(A["Q"])}
        A2 = {"Q": [ren[q] for q in A["Q"]], "S": A["S"], "d": {(ren[p], a): ren[q] for (p, a), q in A["d"].items()},
              "q0": ren[A["q0"]], "F": {ren[q] for q in A["F"]}}
        if not fa.iso_reachable(A, A2):
            return "fa: renamed copy not isomorphic"
        if fa.n_classes(A, fa.reachable(A)) != len(fa.canonical_min(A)[1]):
            return "fa: class count differs from canonical minimal size"
    return None


TESTS = [("fa", test_fa)]


def run(quick):
    bad = check_no_library_import()
    if bad:
        print("SELFTEST: reference modules import the library: %s" % bad)
        return 1
    import importlib
    rng = random.Random(12345)   # self-test of the harness only; not part of any property
    for name, fn in TESTS:
        msg = fn(rng, 25 if quick else 400)
        if msg:
            print("SELFTEST disagreement: %s" % msg)
            return 1
    if not quick:
        print("selftest ok")
    return 0
