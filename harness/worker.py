"""One worker process = one PYTHONHASHSEED.  Runs all clauses of one property and writes a JSON fragment."""
import importlib
import json
import os
import sys
import time
import traceback

ROOT = os.path.dirname(os.path.dirname(os.path.abspath(__file__)))
sys.path.insert(0, ROOT)
from harness import engine  # noqa: E402

sys.path.insert(0, engine.REPO_SRC)


def load_known():
    with open(os.path.join(ROOT, "known_findings.json"), encoding="utf8") as f:
        return json.load(f).get("findings", [])


def main():
    prop, tier, widx, nworkers, vseed, outdir = sys.argv[1], sys.argv[2], int(sys.argv[3]), int(sys.argv[4]), int(sys.argv[5]), sys.argv[6]
    only = sys.argv[7].split(",") if len(sys.argv) > 7 and sys.argv[7] else None
    t0 = time.time()
    out = {"worker": widx, "hashseed": os.environ.get("PYTHONHASHSEED"), "clauses": [], "errors": []}
    try:
        mod = importlib.import_module("props.%s" % prop.lower())
        known = load_known()
        predicates = getattr(mod, "KNOWN_PREDICATES", {})
        for cidx, clause in enumerate(mod.CLAUSES):
            if only and clause.name not in only:
                continue
            if getattr(clause, "only_tiers", None) and tier not in clause.only_tiers and not only:
                continue
            r = engine.ClauseRunner(prop, clause, cidx, tier, widx, nworkers, vseed, known, predicates,
                                    os.environ.get("PYTHONHASHSEED"))
            tc = time.time()
            r.run_exhaustive()
            r.run_hypothesis()
            r.run_external(outdir)
            res = r.result()
            res["wall_s"] = round(time.time() - tc, 2)
            out["clauses"].append(res)
        out["assumptions"] = getattr(mod, "ASSUMPTIONS", [])
    except BaseException as e:  # noqa
        out["errors"].append("worker crashed: " + "".join(traceback.format_exception(type(e), e, e.__traceback__))[-3000:])
    out["wall_s"] = round(time.time() - t0, 2)
    with open(os.path.join(outdir, "w%d.json" % widx), "w", encoding="utf8") as f:
        json.dump(out, f, ensure_ascii=False)


if __name__ == "__main__":
    main()
