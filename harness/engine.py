"""Clause engine: drives one clause with Hypothesis (or an exhaustive enumerator),
buckets failures, shrinks, writes replay files and collects coverage statistics.

Everything random comes from Hypothesis, seeded arithmetically from VERIF_SEED.
"""
import hashlib
import json
import os
import signal
import sys
import time
import traceback

import hypothesis
from hypothesis import HealthCheck, Phase, given, settings

ROOT = os.path.dirname(os.path.dirname(os.path.abspath(__file__)))
REPO_SRC = os.environ.get("GAMBATOOLS_SRC", "/repo/src")


class Fail(Exception):
    """The clause's predicate is false for this case (a property violation)."""

    def __init__(self, sub, msg, **details):
        super().__init__("%s: %s" % (sub, msg))
        self.sub = sub
        self.msg = msg
        self.details = details


class StopClause(BaseException):
    """The same already-recorded failure bucket keeps recurring: stop this clause early (cost bound)."""


class Inconclusive(Exception):
    """Wall-clock watchdog fired in a clause that is not about termination."""


class Clause(object):
    def __init__(self, name, strategy, run, quick, thorough, rule, exhaustive=None, watchdog=60, crossproc=False, external=None):
        self.name = name
        self.strategy = strategy        # callable(tier) -> hypothesis strategy of JSON-able cases
        self.run = run                  # callable(case) -> info dict {"nt":bool,"cls":[..],"out":..}
        self.budget = {"quick": quick, "thorough": thorough}
        self.rule = rule
        self.exhaustive = exhaustive    # callable(tier) -> (description, iterable of cases) or None
        self.watchdog = watchdog
        self.external = external        # callable(tier, widx, nworkers, vseed, workdir) -> dict: a driver outside Hypothesis (coverage-guided fuzzing)
        self.crossproc = crossproc      # same cases in every worker; result signatures compared across hash seeds by the parent


def digest(case):
    return hashlib.sha1(json.dumps(case, sort_keys=True, ensure_ascii=False).encode("utf8")).hexdigest()[:16]


def lib(fn, *args, **kwargs):
    """Call a library function that the oracle says must succeed; an exception is a failure
    bucketed by (type, innermost library frame)."""
    try:
        return fn(*args, **kwargs)
    except (Fail, Inconclusive, KeyboardInterrupt, hypothesis.errors.HypothesisException):
        raise
    except BaseException as e:  # noqa
        if type(e).__name__ in ("BudgetExceeded",):
            raise
        tb = traceback.extract_tb(e.__traceback__)
        site = "?"
        for fr in reversed(tb):
            if "/gambatools/" in fr.filename or "make_notebook" in fr.filename:
                site = "%s:%s" % (os.path.basename(fr.filename), fr.name)
                break
        name = getattr(fn, "__name__", str(fn))
        raise Fail("exc:%s@%s" % (type(e).__name__, site), "%s raised %s: %s" % (name, type(e).__name__, str(e)[:200]))


def lib_verbose(fn, *args, **kwargs):
    """lib() with verbose=True (a documented keyword argument of the grammar functions); what the function prints is discarded."""
    import contextlib
    import io
    with contextlib.redirect_stdout(io.StringIO()):
        return lib(fn, *args, verbose=True, **kwargs)


def _alarm(signum, frame):
    # never raise while a garbage-collection callback of Hypothesis is on the stack (the exception would surface in its internals): try again shortly
    f = frame
    while f is not None:
        if f.f_code.co_name == "gc_callback":
            signal.alarm(1)
            return
        f = f.f_back
    raise Inconclusive("watchdog")


def derive_seed(vseed, prop, clause_index, widx, rnd=0):
    n = int(prop[1:])
    return (vseed * 1000003 + n * 10007 + clause_index * 101 + widx * 7 + rnd * 131071) % (2 ** 31)


class ClauseRunner(object):
    def __init__(self, prop, clause, cidx, tier, widx, nworkers, vseed, known, predicates, hashseed):
        self.prop, self.clause, self.cidx, self.tier = prop, clause, cidx, tier
        self.widx, self.nworkers, self.vseed = widx, nworkers, vseed
        self.known = [k for k in known if k["property"] == prop and k["clause"] == clause.name]
        self.predicates = predicates
        self.hashseed = hashseed
        self.stats = {"evaluations": 0, "nontrivial": 0, "excluded_known": 0, "excluded_bucket": 0,
                      "classes": {}, "exhaustive": None, "max_line_events": 0, "inconclusive": 0}
        self.nt_digests = set()
        self.samples = []
        self.failures = []      # list of dict(bucket, case, msg, details)
        self.excluded = set()
        self.errors = []
        self.last_fail = None
        self.slowest_case = None
        self.sigs = {}

    # -- one evaluation ------------------------------------------------------------
    def evaluate(self, case, raising=True):
        st = self.stats
        st["evaluations"] += 1
        for k in self.known:
            if self.predicates[k["predicate"]](case):
                st["excluded_known"] += 1
                return None
        if isinstance(case, dict):
            # process-global counters of the library (identifier generators in default arguments / module globals) start every case at a value that is part
            # of the case: 'any number of earlier calls' is a generated dimension, and a case stays a pure function of its description
            try:
                from harness.libstate import set_identifier_generators
                set_identifier_generators(case.get("id_offset", 0) if isinstance(case.get("id_offset", 0), int) else 0)
            except Exception:
                pass
        old = signal.signal(signal.SIGALRM, _alarm)
        signal.alarm(int(os.environ.get("VERIF_WATCHDOG", self.clause.watchdog)))      # the override is a debugging aid (find slow cases)
        t_start = time.time()
        try:
            info = self.clause.run(case) or {}
        except Inconclusive:
            # a wall-clock limit was hit: neither a violation nor a pass; counted, never shrunk
            st["inconclusive"] = st.get("inconclusive", 0) + 1
            dbg = os.environ.get("VERIF_DEBUG_INCONCLUSIVE")
            if dbg:
                with open(dbg, "a", encoding="utf8") as f:
                    f.write(json.dumps({"clause": self.clause.name, "case": case}, ensure_ascii=False, default=str) + "\n")
            if st["inconclusive"] >= 6:
                st["stopped_by_watchdog"] = True
                # the code under test has become slow on this class of inputs: give up on the clause (reported as inconclusive, exit 2) instead of
                # spending a watchdog period on each of the remaining cases
                raise StopClause()
            return None
        except Fail as f:
            if f.sub in self.excluded:
                st["excluded_bucket"] += 1
                if st["excluded_bucket"] > 40:
                    raise StopClause()
                return None
            self.last_fail = (case, f)
            if raising:
                raise
            return f
        finally:
            signal.alarm(0)
            signal.signal(signal.SIGALRM, old)
            dt = time.time() - t_start
            if dt > st.get("slowest_case_s", 0):
                st["slowest_case_s"] = round(dt, 3)
                self.slowest_case = case
        for c in info.get("cls", ()):
            st["classes"][c] = st["classes"].get(c, 0) + 1
        if "events" in info:
            st["max_line_events"] = max(st["max_line_events"], info["events"])
        if self.clause.crossproc and "sig" in info:
            self.sigs[digest(case)] = {"sig": info["sig"], "case": case}
        if info.get("nt"):
            d = digest(case)
            if d not in self.nt_digests:
                self.nt_digests.add(d)
                st["nontrivial"] += 1
                if len(self.samples) < 3:
                    self.samples.append({"clause": self.clause.name, "case": case, "outcome": info.get("out")})
        return None

    # -- hypothesis driver ------------------------------------------------------------
    def run_hypothesis(self):
        n = self.clause.budget[self.tier]
        if not n or self.clause.strategy is None:
            return
        strat = self.clause.strategy(self.tier)
        for rnd in range(5):
            self.last_fail = None
            seed = derive_seed(self.vseed, self.prop, self.cidx, 0 if self.clause.crossproc else self.widx)

            @hypothesis.seed(seed)
            @settings(max_examples=n, database=None, deadline=None, derandomize=False,
                      report_multiple_bugs=False, print_blob=False,
                      phases=[Phase.generate, Phase.shrink],
                      suppress_health_check=list(HealthCheck))
            @given(strat)
            def test(case):
                self.evaluate(case)

            try:
                test()
                return
            except Fail:
                case, f = self.last_fail
                self.failures.append({"bucket": f.sub, "case": case, "msg": f.msg, "details": f.details})
                self.excluded.add(f.sub)
            except StopClause:
                self.stats["stopped_early"] = True
                return
            except Inconclusive:
                self.errors.append("watchdog fired in clause %s" % self.clause.name)
                return
            except hypothesis.errors.Unsatisfiable as e:
                self.errors.append("unsatisfiable generator in %s: %s" % (self.clause.name, e))
                return
            except BaseException as e:  # harness / oracle bug: never a violation
                if self.last_fail is not None and isinstance(e, hypothesis.errors.Flaky):
                    # the predicate failed for this case but not when the same case was executed again in this process:
                    # the library's answer depends on the calls made before (the oracles are pure functions of the case)
                    case, f = self.last_fail
                    sub = f.sub + ":depends_on_earlier_calls"
                    if sub not in self.excluded:
                        self.failures.append({"bucket": sub, "case": case, "msg": f.msg + "  [observed once; the same case passed when repeated in the same process, "
                                              "so the result depends on earlier calls - the replay file alone may not reproduce it]", "details": f.details})
                    self.excluded.add(sub)
                    self.excluded.add(f.sub)
                    continue
                else:
                    self.errors.append("harness error in %s: %s" % (self.clause.name, "".join(traceback.format_exception(type(e), e, e.__traceback__))[-1500:]))
                return

    # -- exhaustive driver ------------------------------------------------------------
    def run_exhaustive(self):
        if self.clause.exhaustive is None:
            return
        res = self.clause.exhaustive(self.tier)
        if res is None:
            return
        desc, cases = res
        count = 0
        try:
            for i, case in enumerate(cases):
                if i % self.nworkers != self.widx:
                    continue
                count += 1
                f = self.evaluate(case, raising=False)
                if f is not None:
                    self.failures.append({"bucket": f.sub, "case": case, "msg": f.msg, "details": f.details})
                    self.excluded.add(f.sub)
        except StopClause:
            self.stats["stopped_early"] = True
        except Inconclusive:
            self.errors.append("watchdog fired in exhaustive tier of %s" % self.clause.name)
        except Fail:
            raise
        except BaseException as e:
            self.errors.append("harness error in exhaustive tier of %s: %s" % (self.clause.name, "".join(traceback.format_exception(type(e), e, e.__traceback__))[-1500:]))
        self.stats["exhaustive"] = {"bound": desc, "cases_this_worker": count}

    # -- external driver (coverage-guided fuzzer) ---------------------------------------
    def run_external(self, workdir):
        if self.clause.external is None:
            return
        try:
            res = self.clause.external(self.tier, self.widx, self.nworkers, self.vseed, workdir)
        except BaseException as e:
            self.errors.append("external driver of %s failed: %s" % (self.clause.name, "".join(traceback.format_exception(type(e), e, e.__traceback__))[-1200:]))
            return
        if not res:
            return
        st = self.stats
        st["evaluations"] += res.get("evaluations", 0)
        for k, v in res.get("classes", {}).items():
            st["classes"][k] = st["classes"].get(k, 0) + v
        for d in res.get("nt_digests", []):
            if d not in self.nt_digests:
                self.nt_digests.add(d)
                st["nontrivial"] += 1
        self.samples.extend(res.get("samples", [])[: max(0, 3 - len(self.samples))])
        for fl in res.get("failures", []):
            if fl["bucket"] not in self.excluded:
                self.failures.append(fl)
                self.excluded.add(fl["bucket"])

    def result(self):
        return {"clause": self.clause.name, "stats": self.stats, "nt_digests": sorted(self.nt_digests),
                "samples": self.samples, "sigs": self.sigs, "slowest_case": self.slowest_case, "failures": self.failures, "errors": self.errors,
                "rule": self.clause.rule}
