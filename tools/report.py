#!/usr/bin/env python3
"""Prints the markdown tables of DESIGN.md section 9 from seeded/*/meta.json and the last tools/mutants.py log (if given)."""
import json
import os
import sys

ROOT = os.path.dirname(os.path.dirname(os.path.abspath(__file__)))


def main():
    rows = []
    for name in sorted(os.listdir(os.path.join(ROOT, "seeded"))):
        mp = os.path.join(ROOT, "seeded", name, "meta.json")
        if not os.path.exists(mp):
            continue
        m = json.load(open(mp, encoding="utf8"))
        res = m.get("check_results", {})
        caught = "; ".join("%s: %s%s" % (p, r["verdict"], (" (" + r["first_failure"].split("]")[0].split("FAIL ")[-1] + "])") if r.get("first_failure") else "") for p, r in sorted(res.items()))
        note = m.get("history", "")
        if m.get("retired"):
            caught = "retired"
            note = m["retired"]
        rows.append("| %s | %s | %s | %s%s |" % (name, m["property"], m["summary"].replace("|", "/")[:230], caught or "not run", (" — " + note) if note else ""))
    print("| seeded change | property | what was changed | result of the quick check |")
    print("|---|---|---|---|")
    print("\n".join(rows))
    if len(sys.argv) > 1:
        print()
        print("| mutant | property | verdict |")
        print("|---|---|---|")
        for l in open(sys.argv[1], encoding="utf8"):
            parts = l.split()
            if len(parts) >= 3 and parts[1].startswith("C") and len(parts[1]) == 3:
                print("| %s | %s | %s |" % (parts[0], parts[1], parts[2]))


if __name__ == "__main__":
    main()
