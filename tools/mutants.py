#!/usr/bin/env python3
"""Sensitivity testing: apply hand-written mutants (string replacements) to a scratch copy of the
library outside /repo and /verif, run the quick check of the property they should break, and report
whether the check caught them.  Usage: mutants.py [Cxx ...] [--tier quick] [--keep]

The scratch copy is removed afterwards.  Nothing in /repo is touched.
"""
import os
import shutil
import subprocess
import sys
import tempfile

ROOT = os.path.dirname(os.path.dirname(os.path.abspath(__file__)))
PY = "/venv/bin/python"

# (mutant id, property, file below src/gambatools, old text, new text)
M = [
    ("c01-closure-one-step", "C01", "nfa_algorithms.py", "        todo = todo | Q1\n", "        todo = todo\n"),
    ("c01-start-no-closure", "C01", "nfa_algorithms.py", "    q: Set[State] = Eq[q0]\n", "    q: Set[State] = {q0}\n"),
    ("c01-subset-not-disjoint", "C01", "nfa_algorithms.py", "    return not q.isdisjoint(F)\n", "    return len(q) > 0 and q <= F\n"),
    ("c01-dfa-accept-initial", "C01", "dfa_algorithms.py", "    for a in word:\n        q = delta[q, a]\n    return q in F", "    for a in word[:3]:\n        q = delta[q, a]\n    return q in F"),
    ("c03-no-closure", "C03", "nfa_algorithms.py", "            Q2 = epsilon_closure(N, Q2)\n            stateQ2 = state(Q2)", "            stateQ2 = state(Q2)"),
    ("c03-final-from-q1", "C03", "nfa_algorithms.py", "            if not Q2.isdisjoint(N.F):\n                F.add(stateQ2)", "            if not Q1.isdisjoint(N.F):\n                F.add(stateQ2)"),
    ("c04-quotient-one-symbol", "C04", "dfa_algorithms.py", "if all(eq[delta[v, a]] == eq[delta[w, a]] for a in Sigma):", "if all(eq[delta[v, a]] == eq[delta[w, a]] for a in sorted(Sigma)[:1]):"),
    ("c04-hopcroft-skip-pairs", "C04", "dfa_algorithms.py", "            if len(P) == 1:\n                continue", "            if len(P) <= 2:\n                continue"),
    ("c04-table-final-flag", "C04", "dfa_algorithms.py", "        table[i, j] = ((q[i] in F) == (q[j] in F))", "        table[i, j] = ((q[i] in F) == (q[j] in F)) or (len(F) == 3 and n > 3)"),
    ("c14-symdiff-as-intersection", "C14", "dfa_algorithms.py", "if (q1 in F1 and q2 not in F2) or (q1 not in F1 and q2 in F2))", "if (q1 in F1 and q2 not in F2) or (q1 in F1 and q2 in F2))"),
    ("c14-reverse-no-initial", "C14", "dfa_algorithms.py", "    delta[q0, epsilon] = D.F.copy()\n", "    delta[q0, epsilon] = set(list(D.F)[:1])\n"),
    ("c14-no-extend-depth0", "C14", "dfa_algorithms.py", "len(dfa_reachable_states(D, qf, 1) & D.F) == 0", "len(dfa_reachable_states(D, qf, 0) & D.F) == 1"),
    ("c14-lang-no-extend", "C14", "language_algorithms.py", "        return w.startswith(v) and w != v", "        return w.startswith(v) and len(w) > len(v) + 1"),
    ("c20-no-final-check", "C20", "dfa_algorithms.py", "        if (q1 in F1) != (q2 in F2):\n            return False\n        if matching.get", "        if matching.get"),
    ("c20-len-first", "C20", "dfa_algorithms.py", "    matching = {}\n    inverse = {}", "    if len(D1.Q) != len(D2.Q):\n        return False\n    matching = {}\n    inverse = {}"),
    ("c18-union-finals", "C18", "nfa_algorithms.py", "    F = N1.F | N2.F\n", "    F = N1.F\n"),
    ("c18-star-no-q0-final", "C18", "nfa_algorithms.py", "    F = N.F | {q0}\n", "    F = N.F\n"),
    ("c18-concat-keeps-f1", "C18", "nfa_algorithms.py", "    F = N2.F\n", "    F = N2.F | N1.F\n"),
    ("c05-concat-split", "C05", "regexp_algorithms.py", "for k in range(len(w) + 1))\n    elif isinstance(r, Iteration):", "for k in range(1, len(w) + 1))\n    elif isinstance(r, Iteration):"),
    ("c05-simplify-one-left", "C05", "regexp_algorithms.py", "        elif isinstance(left, One):\n            result = right", "        elif isinstance(left, One):\n            result = left"),
    ("c05-simplify-zero-star", "C05", "regexp_algorithms.py", "        if isinstance(operand, (Zero, One)):\n            result = One()", "        if isinstance(operand, (Zero, One)):\n            result = operand"),
    ("c06-gnfa-no-star", "C06", "regexp_algorithms.py", "Concat(R1, Concat(Iteration(R2), R3))", "Concat(R1, Concat(R2, R3))"),
    ("c07-split-range", "C07", "cfg_algorithms.py", "            for k in range(i, j):\n                if verbose: print('X[{}, {}] depends", "            for k in range(i + 1, j):\n                if verbose: print('X[{}, {}] depends"),
    ("c07-overwrite-cell", "C07", "cfg_algorithms.py", "                    X[i, j] |= set(A for A in V if [B, C] in P[A])", "                    X[i, j] = set(A for A in V if [B, C] in P[A])"),
    ("c07-eps-unconverted", "C07", "cfg_algorithms.py", "    if not G.is_chomsky():\n        G = cfg_to_chomsky(G)\n        if verbose:", "    if w == '':\n        return Rule(G.S, Alternative([])) in G.R\n    if not G.is_chomsky():\n        G = cfg_to_chomsky(G)\n        if verbose:"),
    ("c08-nullable-drop", "C08", "cfg_algorithms.py", "        result = result + y\n", "        result = result + y[:1]\n"),
    ("c08-unit-first-only", "C08", "cfg_algorithms.py", "                if not r1 in R1:\n                    R1.append(r1)", "                if not r1 in R1:\n                    R1.append(r1)\n                    break"),
    ("c08-fresh-26", "C08", "cfg_algorithms.py", "    while A in V:\n        A = Variable('{}{}'.format(hint, index))\n        index = index + 1\n    return A", "    return A"),
    ("c08-no-deepcopy", "C08", "cfg_algorithms.py", "def cfg_to_chomsky(G: CFG, verbose: bool = False) -> CFG:\n    G = copy.deepcopy(G)", "def cfg_to_chomsky(G: CFG, verbose: bool = False) -> CFG:\n    G = copy.copy(G)"),
    ("c08-eps-keep-start-only-if-first", "C08", "cfg_algorithms.py", "            if not symbols and rule.variable in W - {S}:", "            if not symbols and rule.variable in W:"),
    ("c09-pop-ignores-top", "C09", "pda_algorithms.py", "    return u == P.epsilon or (stack and stack[-1] == u)", "    return u == P.epsilon or bool(stack)"),
    ("c09-replace-keeps-top", "C09", "pda_algorithms.py", "            return stack[:-1] + [v]", "            return stack + [v]"),
    ("c09-no-final-closure", "C09", "pda_algorithms.py", "    for a in w:\n        R = pda_do_transition(P, Symbol(a), R)\n        R = pda_epsilon_closure(P, R)\n    return any(r.q in F for r in R)", "    for a in w:\n        R = pda_epsilon_closure(P, R)\n        R = pda_do_transition(P, Symbol(a), R)\n    return any(r.q in F for r in R)"),
    ("c09-limit-off-by-two", "C09", "pda_algorithms.py", "    while len(todo) > 0 and iteration < max_iterations:", "    while len(todo) > 0 and iteration < max_iterations - 2:"),
    ("c10-pushpop-replace-pushes-u", "C10", "pda_algorithms.py", "                delta1[q_mid, epsilon, epsilon].add((q, v))", "                delta1[q_mid, epsilon, epsilon].add((q, u))"),
    ("c10-one-accepting-no-clear", "C10", "pda_algorithms.py", "        delta[q, epsilon, epsilon].add((q_accept, epsilon))\n\n    F.clear()\n    F.add(q_accept)", "        delta[q, epsilon, epsilon].add((q_accept, epsilon))\n\n    F.add(q_accept)"),
    ("c10-cfg-no-app-eps", "C10", "pda_algorithms.py", "    for p in Q:\n        App = variable(p, p)\n        R.append(make_rule(App, []))", "    for p in sorted(Q)[1:]:\n        App = variable(p, p)\n        R.append(make_rule(App, []))"),
    ("c10-drain-only-first-symbol", "C10", "pda_algorithms.py", "    for X in Gamma - {stack_bottom}:\n        for q in F:", "    for X in sorted(Gamma - {stack_bottom})[:1]:\n        for q in F:"),
    ("c11-left-end", "C11", "tm_algorithms.py", "    head1 = max(head - 1, 0) if d == 'L' else head + 1", "    head1 = head - 1 if d == 'L' else head + 1"),
    ("c11-reject-writes-blank", "C11", "tm_algorithms.py", "        q, b, d = T.q_reject, a, Direction('R')", "        q, b, d = T.q_reject, T.blank, Direction('R')"),
    ("c11-budget-plus-one", "C11", "tm_algorithms.py", "    for _ in range(max_steps):\n        q, head = tm_do_transition(T, q, tape, head)\n        if q == q_accept:\n            return True", "    for _ in range(max_steps + 1):\n        q, head = tm_do_transition(T, q, tape, head)\n        if q == q_accept:\n            return True"),
    ("c11-trace-no-copy", "C11", "tm_algorithms.py", "        q, head = tm_do_transition(T, q, tape, head)\n        result.append((q, tape[:], head))", "        q, head = tm_do_transition(T, q, tape, head)\n        result.append((q, tape, head))"),
    ("c15-nfa-find-transition-label", "C15", "nfa_algorithms.py", "            if src != p or a != a1:\n                continue\n            for q in Q1:\n                if q == target:\n                    return src", "            if src != p or a1 == N.epsilon:\n                continue\n            for q in Q1:\n                if q == target:\n                    return src"),
    ("c15-dfa-append-before-step", "C15", "dfa_algorithms.py", "        q = delta[q, a]\n        result.append((q, word[k:]))", "        result.append((q, word[k:]))\n        q = delta[q, a]"),
    ("c15-rightmost-first-index", "C15", "cfg_algorithms.py", "pos = first_index(element, A) if leftmost else last_index(element, A)", "pos = first_index(element, A)"),
    ("c15-pda-find-transition-stack", "C15", "pda_algorithms.py", "if q == target.q and pda_can_pop_push(P, src.stack, u, v) and pda_pop_push(P, src.stack, u, v) == target.stack:", "if q == target.q and pda_can_pop_push(P, src.stack, u, v):"),
    ("c15-nfa-backpointer-overwrite", "C15", "nfa_algorithms.py", "                if target not in visited:\n                    backpointers[target] = src\n                if target == f:", "                backpointers[target] = src\n                if target == f:"),
    ("c02-dfa-range", "C02", "dfa_algorithms.py", "    W = {(D.q0, '')}\n    for i in range(n):", "    W = {(D.q0, '')}\n    for i in range(n - 1):"),
    ("c02-dfa-no-empty-word", "C02", "dfa_algorithms.py", "    if D.q0 in D.F:\n        words.add('')\n    W = {(D.q0, '')}", "    W = {(D.q0, '')}"),
    ("c02-regexp-concat-split", "C02", "regexp_algorithms.py", "regexp_words_up_to_n(r.right, n - k)) for k in range(n + 1)])", "regexp_words_up_to_n(r.right, n - k)) for k in range(n)])"),
    ("c02-tm-range", "C02", "tm_algorithms.py", "    for i in range(n + 1):\n        for w in itertools.product(Sigma, repeat = i):", "    for i in range(n):\n        for w in itertools.product(Sigma, repeat = i):"),
    ("c02-nfa-empty-word-final", "C02", "nfa_algorithms.py", "    if N.q0 in F1:\n        result.add('')", "    if N.q0 in N.F:\n        result.add('')"),
    ("c02-pda-initial-closure", "C02", "pda_algorithms.py", "    R = {PDAState(P.q0, [])}\n    R = pda_epsilon_closure(P, R)\n    for r in R:\n        W[r] = {''}", "    R = {PDAState(P.q0, [])}\n    for r in R:\n        W[r] = {''}"),
    ("c02-cfg-range", "C02", "cfg_algorithms.py", "    for i in range(2, n + 1):\n        W = remove_duplicates", "    for i in range(2, n):\n        W = remove_duplicates"),
    ("c17-no-determinism-check", "C17", "dfa_algorithms.py", "            if (p, a) in V:\n                raise RuntimeError('the automaton is not deterministic in node {}'.format(p))", "            pass"),
    ("c17-two-initial-ok", "C17", "automaton_algorithms.py", "        elif len(A.initial_states) > 1:\n            raise RuntimeError('the automaton has multiple initial states')", "        elif len(A.initial_states) > 2:\n            raise RuntimeError('the automaton has multiple initial states')"),
    ("c17-no-duplicate-keys", "C17", "automaton_algorithms.py", "        if key in self.items:\n            raise RuntimeError('the keyword \"{}\" is specified multiple times'.format(key))", "        pass"),
    ("c17-transition-two-words", "C17", "automaton_algorithms.py", "        if len(words) <= 2:\n            raise RuntimeError('incomplete transition", "        if len(words) <= 1:\n            raise RuntimeError('incomplete transition"),
    ("c17-eps-default", "C17", "automaton_algorithms.py", "        for (p, a, q) in A.transitions:\n            if value in a:\n                return value\n        return default_value", "        return default_value"),
    ("c17-nfa-last-wins", "C17", "nfa_algorithms.py", "            delta[p, a].add(q)\n        return NFA(Q, Sigma, delta, q0, F, epsilon)", "            delta[p, a] = {q}\n        return NFA(Q, Sigma, delta, q0, F, epsilon)"),
    ("c16-print-pda-swap", "C16", "pda_algorithms.py", "transitions['{} {}'.format(p, q)].append('{},{}{}'.format(a, u, v))", "transitions['{} {}'.format(p, q)].append('{},{}{}'.format(a, v, u))"),
    ("c16-print-tm-no-blank", "C16", "tm_algorithms.py", "    out.write('blank {}\\n'.format(blank))\n", ""),
    ("c16-print-nfa-one-label", "C16", "nfa_algorithms.py", "            transitions['{} {}'.format(p, q)].append(a)\n    for pq in sorted(transitions.keys()):\n        out.write('{} {}\\n'.format(pq, ' '.join(transitions[pq])))\n    result = out.getvalue()\n    out.close()\n    return result\n\n\ndef automaton_to_nfa", "            transitions['{} {}'.format(p, q)].append(a)\n    for pq in sorted(transitions.keys()):\n        out.write('{} {}\\n'.format(pq, transitions[pq][0]))\n    result = out.getvalue()\n    out.close()\n    return result\n\n\ndef automaton_to_nfa"),
    ("c16-simple-print-parens", "C16", "regexp.py", "        if n1:\n            x1 = '({})'.format(x1)\n        if n2:\n            x2 = '({})'.format(x2)\n        return '{}{}'.format(x1, x2)", "        if n1:\n            x1 = '({})'.format(x1)\n        return '{}{}'.format(x1, x2)"),
    ("c12-product-extra-finals", "C12", "notebook_dfa.py", "    for q in answer.F - D.F:\n        feedback.append('The state {} should not be final'.format(q))\n\n    return feedback", "    return feedback"),
    ("c12-compare-missing-only", "C12", "language_generator.py", "    elif len(A2minusA1) > 0:\n        word = A2minusA1[0]", "    elif len(A2minusA1) > 1:\n        word = A2minusA1[0]"),
    ("c12-max-states", "C12", "notebook.py", "    if 0 < max_states < len(A.Q):", "    if 0 < max_states < len(A.Q) - 1:"),
    ("c12-nfa2dfa-initial", "C12", "notebook_nfa2dfa.py", "    if extract_states(answer.q0) != extract_states(D.q0):", "    if len(extract_states(answer.q0)) != len(extract_states(D.q0)):"),
    ("c12-leftmost-any-variable", "C12", "notebook_cfg.py", "        elif derivation_type == 'leftmost':\n            return {variables[0]}", "        elif derivation_type == 'leftmost':\n            return set(variables)"),
    ("c12-chomsky-unit-check", "C12", "notebook_chomsky.py", "        if phase >= 3:\n            feedback = feedback + check_cfg_has_no_unit_productions(G1)", "        if phase >= 4:\n            feedback = feedback + check_cfg_has_no_unit_productions(G1)"),
    ("c12-minimal-count", "C12", "notebook_dfa.py", "        if len(D.Q) != len(answer.Q):", "        if len(D.Q) > len(answer.Q):"),
    ("c12-reverse-language", "C12", "notebook_dfa.py", "        L2 = language_reverse(generate_language(D, length))", "        L2 = language_reverse(generate_language(D, length - 1))"),
    ("c13-state-set-separator", "C13", "dfa.py", "    return '{{{}}}'.format(','.join(sorted(Q)))", "    return '{{{}}}'.format(', '.join(sorted(Q)))"),
    ("c13-state-set-regex", "C13", "automaton_algorithms.py", "    return r'\\{[\\w,]*\\}'\n\n\ndef state_product_regex", "    return r'\\{[\\w]*\\}'\n\n\ndef state_product_regex"),
    ("c13-minimal-vs-table-filling", "C13", "notebook_dfa.py", "        D = dfa_quotient(D)\n        answer = parse_dfa(answer_dfa", "        D = dfa_remove_unreachable_states(D)\n        D = dfa_quotient(D)\n        answer = parse_dfa(answer_dfa"),
    ("c13-simple-print-parens", "C13", "regexp.py", "        if n1:\n            x1 = '({})'.format(x1)\n        if n2:\n            x2 = '({})'.format(x2)\n        return '{}{}'.format(x1, x2)", "        if n1:\n            x1 = '({})'.format(x1)\n        return '{}{}'.format(x1, x2)"),
    ("c13-cyk-print-order", "C13", "cfg_algorithms.py", "    return '\\n'.join(reversed(lines))", "    return '\\n'.join(lines)"),
    ("c13-reverse-eps-name", "C13", "dfa_algorithms.py", "def dfa_reverse(D: DFA) -> NFA:\n    epsilon = Symbol('ε')", "def dfa_reverse(D: DFA) -> NFA:\n    epsilon = Symbol('')"),
    ("c19-chomsky-no-deepcopy", "C19", "cfg_algorithms.py", "def cfg_to_chomsky(G: CFG, verbose: bool = False) -> CFG:\n    G = copy.deepcopy(G)", "def cfg_to_chomsky(G: CFG, verbose: bool = False) -> CFG:\n    G = copy.copy(G)"),
    ("c19-remove-unreachable-inplace", "C19", "dfa_algorithms.py", "    Q1 = dfa_reachable_states(D, q0)\n    F1 = F & Q1", "    Q1 = dfa_reachable_states(D, q0)\n    F &= Q1\n    F1 = F"),
    ("c19-simplify-mutates", "C19", "regexp_algorithms.py", "        elif isinstance(operand, Iteration):\n            result = operand\n        else:\n            result = Iteration(operand)", "        elif isinstance(operand, Iteration):\n            result = operand\n        else:\n            r.operand = operand\n            result = r"),
    ("c19-hopcroft-logging", "C19", "dfa_algorithms.py", "            log(f'split(W, a, P) = {print_Q(P1)}, {print_Q(P2)}')", "            log(f'split(W, a, P) = {print_Q(P1)}, {print_Q(P2)}, {W_cal.clear() if log.__globals__['GambaTools'].enable_logging else None}')"),
    ("c19-complement-shares-nothing", "C19", "dfa_algorithms.py", "    return DFA(Q, Sigma, delta, q0, Q - F)", "    F ^= Q\n    return DFA(Q, Sigma, delta, q0, F)"),
    ("c19-nfa-to-dfa-order", "C19", "nfa_algorithms.py", "    return not q.isdisjoint(F)\n", "    return not q.isdisjoint(F) and (len(q) < 2 or sorted(q)[0] == next(iter(q)))\n"),
    ("c17-dfa-build-unchecked", "C17", "dfa_algorithms.py", "        self._check_is_total(input_symbols)\n\n        Q = set(State(s) for s in A.states)\n        Sigma = set(Symbol(s) for s in input_symbols)\n        delta = {}\n        q0 = State(set_element(A.initial_states))\n        F = set(State(s) for s in A.final_states)\n        for (p, a, q) in A.transitions:\n            p = State(p)\n            q = State(q)\n            a = Symbol(a)\n            delta[p, a] = q\n        return DFA(Q, Sigma, delta, q0, F)", "        Q = set(State(s) for s in A.states)\n        Sigma = set(Symbol(s) for s in input_symbols)\n        delta = {}\n        q0 = State(set_element(A.initial_states))\n        F = set(State(s) for s in A.final_states)\n        for (p, a, q) in A.transitions:\n            p = State(p)\n            q = State(q)\n            a = Symbol(a)\n            delta[p, a] = q\n        return DFA(Q, Sigma, delta, q0, F, check_validity=len(Q) < 3)"),
    ("c06-gnfa-overwrite", "C06", "regexp_algorithms.py", "            delta1[q, q1] = regexp.Sum(delta1[q, q1], regexp.Symbol(a))", "            delta1[q, q1] = regexp.Symbol(a)"),
]


def run(ids, tier, props):
    results = []
    for mid, prop, fname, old, new in M:
        if ids and mid not in ids:
            continue
        if props and prop not in props:
            continue
        tmp = tempfile.mkdtemp(prefix="gt-mut-", dir="/tmp")
        try:
            shutil.copytree("/repo/src", os.path.join(tmp, "src"))
            path = os.path.join(tmp, "src", "gambatools", fname)
            text = open(path, encoding="utf8").read()
            if text.count(old) != 1:
                results.append((mid, prop, "MUTANT-STALE (%d matches)" % text.count(old)))
                continue
            open(path, "w", encoding="utf8").write(text.replace(old, new))
            env = dict(os.environ, GAMBATOOLS_SRC=os.path.join(tmp, "src"), VERIF_EVIDENCE_DIR=os.path.join(tmp, "ev"), VERIF_NEW_REPLAYS=os.path.join(tmp, "rp"), VERIF_NOTEBOOKS="/repo/notebooks")
            p = subprocess.run([PY, os.path.join(ROOT, "harness", "check.py"), prop, "--tier", tier, "--no-selftest"], env=env, capture_output=True, text=True)
            verdict = {0: "MISSED", 1: "caught", 2: "HARNESS-ERROR"}.get(p.returncode, "rc=%d" % p.returncode)
            first = next((l for l in p.stdout.splitlines() if l.startswith("FAIL")), "")
            results.append((mid, prop, verdict + ("  " + first[:150] if first else "")))
        finally:
            shutil.rmtree(tmp, ignore_errors=True)
    return results


if __name__ == "__main__":
    args = [a for a in sys.argv[1:] if not a.startswith("--")]
    tier = "quick"
    props = [a for a in args if a.startswith("C") and len(a) == 3]
    ids = [a for a in args if a not in props]
    for r in run(ids, tier, props):
        print("%-32s %s %s" % r)
