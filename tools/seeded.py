#!/usr/bin/env python3
"""Confirm and evaluate seeded changes.

  seeded.py import <candidate_out_dir> <property> <k> <name>   confirm candidate k (patchK.diff, demoK.py, metaK.json) in a scratch
                                                               worktree (tests pass, demo fails with / passes without the change) and
                                                               store it as /verif/seeded/<name>/
  seeded.py run [name ...] [--tier quick]                      run the property's check against each stored change (scratch worktree,
                                                               GAMBATOOLS_SRC), print caught / MISSED, update meta.json

Scratch worktrees live under /tmp and are removed afterwards; /repo is never modified.
"""
import json
import os
import shutil
import subprocess
import sys
import tempfile

ROOT = os.path.dirname(os.path.dirname(os.path.abspath(__file__)))
PY = "/venv/bin/python"
SEEDED = os.path.join(ROOT, "seeded")


def sh(cmd, **kw):
    return subprocess.run(cmd, capture_output=True, text=True, **kw)


def scratch(patch):
    tmp = tempfile.mkdtemp(prefix="gt-seed-", dir="/tmp")
    wt = os.path.join(tmp, "wt")
    r = sh(["git", "-C", "/repo", "worktree", "add", "-q", "--detach", wt, "HEAD"])
    if r.returncode != 0:
        raise RuntimeError(r.stderr)
    r = sh(["git", "-C", wt, "apply", "--3way", patch])
    if r.returncode != 0:
        r2 = sh(["git", "-C", wt, "apply", patch])
        if r2.returncode != 0:
            cleanup(tmp)
            raise RuntimeError("patch does not apply: %s %s" % (r.stderr, r2.stderr))
    return tmp, wt


def cleanup(tmp):
    wt = os.path.join(tmp, "wt")
    sh(["git", "-C", "/repo", "worktree", "remove", "--force", wt])
    shutil.rmtree(tmp, ignore_errors=True)
    sh(["git", "-C", "/repo", "worktree", "prune"])


def confirm(patch, demo):
    tmp, wt = scratch(patch)
    try:
        env = dict(os.environ, PYTHONPATH=os.path.join(wt, "src"))
        t = sh([PY, "-m", "pytest", "-q", "-p", "no:cacheprovider", "-x"], cwd=wt, env=env)
        tests_ok = t.returncode == 0 and " passed" in t.stdout and "failed" not in t.stdout
        d1 = sh([PY, demo], env=env, cwd=tmp)
        d0 = sh([PY, demo], env=dict(os.environ, PYTHONPATH="/repo/src"), cwd=tmp)
        return {"tests_pass_with_change": tests_ok, "tests_tail": t.stdout.strip().splitlines()[-1:] if t.stdout.strip() else [t.stderr[-300:]],
                "demo_rc_with_change": d1.returncode, "demo_rc_without_change": d0.returncode, "demo_output": (d1.stdout + d1.stderr)[-600:]}
    finally:
        cleanup(tmp)


def do_import(outdir, prop, k, name):
    patch, demo, meta = [os.path.join(outdir, f % k) for f in ("patch%s.diff", "demo%s.py", "meta%s.json")]
    res = confirm(patch, demo)
    ok = res["tests_pass_with_change"] and res["demo_rc_with_change"] == 1 and res["demo_rc_without_change"] == 0
    print(name, "CONFIRMED" if ok else "REJECTED", res)
    if not ok:
        return 1
    dst = os.path.join(SEEDED, name)
    os.makedirs(dst, exist_ok=True)
    shutil.copy(patch, os.path.join(dst, "patch.diff"))
    shutil.copy(demo, os.path.join(dst, "demo.py"))
    m = json.load(open(meta, encoding="utf8"))
    head = sh(["git", "-C", "/repo", "rev-parse", "--short", "HEAD"]).stdout.strip()
    m.update({"property": prop, "confirmed_at_repo_commit": head,
              "confirmation": "scratch worktree of /repo HEAD + patch: `pytest -q` passes (50 tests); demo.py exits 1 with the change and 0 without it",
              "author": "independent sub-agent given only the property text and a scratch worktree"})
    json.dump(m, open(os.path.join(dst, "meta.json"), "w", encoding="utf8"), indent=1, ensure_ascii=False)
    return 0


import threading

_GIT = threading.Lock()


def do_run(names, tier, props=None, jobs=1):
    names = names or sorted(os.listdir(SEEDED))
    if jobs > 1:
        from concurrent.futures import ThreadPoolExecutor
        with ThreadPoolExecutor(jobs) as ex:
            list(ex.map(lambda n: do_run([n], tier, props), names))
        return
    for name in names:
        d = os.path.join(SEEDED, name)
        mpath = os.path.join(d, "meta.json")
        if not os.path.exists(mpath):
            continue
        m = json.load(open(mpath, encoding="utf8"))
        if m.get("retired"):
            print("%-40s RETIRED %s" % (name, m["retired"][:120]))
            continue
        targets = props or m.get("checked_by", [m["property"]])
        try:
            with _GIT:
                tmp, wt = scratch(os.path.join(d, "patch.diff"))
        except RuntimeError as e:
            print("%-40s PATCH-STALE %s" % (name, str(e)[:100]))
            continue
        try:
            results = {}
            for prop in targets:
                env = dict(os.environ, GAMBATOOLS_SRC=os.path.join(wt, "src"), VERIF_EVIDENCE_DIR=os.path.join(tmp, "ev"), VERIF_NEW_REPLAYS=os.path.join(tmp, "rp"),
                           VERIF_NOTEBOOKS=os.path.join(wt, "notebooks"))
                p = sh([PY, os.path.join(ROOT, "harness", "check.py"), prop, "--tier", tier, "--no-selftest"] + (["--clauses", os.environ["SEEDED_CLAUSES"]] if os.environ.get("SEEDED_CLAUSES") else []), env=env)
                verdict = {0: "MISSED", 1: "caught", 2: "HARNESS-ERROR"}.get(p.returncode, "rc=%d" % p.returncode)
                fails = [l for l in p.stdout.splitlines() if l.startswith("FAIL")]
                results[prop] = {"verdict": verdict, "tier": tier, "first_failure": fails[0][:300] if fails else "",
                                 "failing_clauses": sorted(set(l.split()[1].split("/")[1] for l in fails if "/" in l.split()[1]))}
                print("%-40s %s %s %s %s" % (name, prop, verdict, ",".join(results[prop]["failing_clauses"]), fails[0][:160] if fails else (p.stdout[-300:] if verdict == "HARNESS-ERROR" else "")))
            m["check_results"] = dict(m.get("check_results", {}), **results)
            json.dump(m, open(mpath, "w", encoding="utf8"), indent=1, ensure_ascii=False)
        finally:
            with _GIT:
                cleanup(tmp)


if __name__ == "__main__":
    a = sys.argv[1:]
    if a and a[0] == "import":
        sys.exit(do_import(a[1], a[2], a[3], a[4]))
    elif a and a[0] == "run":
        tier = "quick"
        if "--tier" in a:
            tier = a[a.index("--tier") + 1]
            a = [x for x in a if x not in ("--tier", tier)]
        props = [x[7:] for x in a if x.startswith("--prop=")]
        jobs = max([int(x[7:]) for x in a if x.startswith("--jobs=")] or [1])
        do_run([x for x in a[1:] if not x.startswith("--")], tier, props or None, jobs)
    else:
        print(__doc__)
