#!/usr/bin/env python3
"""Run every registered check (quick or thorough) and print one summary line per property.
Usage: runall.py [--tier quick|thorough] [--seed N] [--evidence-dir DIR] [Cxx ...]"""
import json
import os
import subprocess
import sys
import time

ROOT = os.path.dirname(os.path.dirname(os.path.abspath(__file__)))


def main():
    a = sys.argv[1:]
    tier = a[a.index("--tier") + 1] if "--tier" in a else "quick"
    seed = a[a.index("--seed") + 1] if "--seed" in a else os.environ.get("VERIF_SEED", "1")
    evdir = a[a.index("--evidence-dir") + 1] if "--evidence-dir" in a else None
    props = [x for x in a if x.startswith("C") and len(x) == 3] or [c["property_id"] for c in json.load(open(os.path.join(ROOT, "MANIFEST.json")))["checks"]]
    bad = 0
    for p in props:
        env = dict(os.environ, VERIF_SEED=str(seed))
        if evdir:
            env["VERIF_EVIDENCE_DIR"] = evdir
            env["VERIF_NEW_REPLAYS"] = os.path.join(evdir, "replays")
        t0 = time.time()
        r = subprocess.run(["/venv/bin/python", os.path.join(ROOT, "harness", "check.py"), p, "--tier", tier], capture_output=True, text=True, env=env)
        tail = [l for l in r.stdout.splitlines() if l.startswith(("FAIL", "VIOLATION", "HARNESS", "KNOWN", "INCONCLUSIVE", "WARNING"))]
        print("%s rc=%d %.0fs %s" % (p, r.returncode, time.time() - t0, " | ".join(t[:160] for t in tail[:4])), flush=True)
        bad += r.returncode != 0
    return 1 if bad else 0


if __name__ == "__main__":
    sys.exit(main())
