#!/usr/bin/env python3
"""Writes MANIFEST.json from the table below (kept here so that the manifest stays consistent)."""
import json
import os

ROOT = os.path.dirname(os.path.dirname(os.path.abspath(__file__)))
PY = "/venv/bin/python"

CLAIMED = {
    "C01": ("differential vs. run-existence reference (graph reachability over (state,position)); Hypothesis + exhaustive 2-state NFAs / <=3-state DFAs",
            "generated DFAs/NFAs x all words up to a bound are compared with an independent definition-level reference; exhaustive for the smallest sizes",
            "reference semantics in ref/fa.py (cross-validated by harness/selftest.py); sizes <= 6 states, <= 3 symbols, sampled hash seeds"),
}

CLAIMED.update({
    "C03": ("nfa_to_dfa result vs. independent subset construction, exact equivalence by product walk; validity, initial label, reachability predicates",
            "generated and exhaustively enumerated NFAs; the returned DFA is checked for validity, exact language equality, initial-state meaning and reachability",
            "ref/fa.py; sizes <= 6 states, <= 3 symbols; sampled hash seeds"),
    "C04": ("three minimisers vs. own Moore refinement: exact equivalence, pairwise distinguishability, state-count bounds, argument snapshot",
            "generated (inflated) and exhaustively enumerated DFAs; each minimiser's result is validated against reference Myhill-Nerode classes",
            "ref/fa.py; sizes <= 8 states, <= 3 symbols; set-iteration orders sampled through hash seeds and state renaming/permutation"),
    "C14": ("constructions vs. reference automata built from word-level definitions, exact equivalence; finite-language helpers vs. set comprehensions",
            "generated DFAs / pairs / partial DFAs / finite languages; exact equivalence for regular constructions, set equality for helpers",
            "ref/fa.py, ref/lang.py; sizes <= 5 states, <= 2-3 symbols"),
    "C20": ("both isomorphism tests vs. forced-BFS-matching oracle in both argument orders; termination by deterministic line-event budget",
            "generated pairs in five classes (renamed, unreachable states, split state, mutated, independent) and all ordered pairs of <=2-state DFAs",
            "ref/fa.py; termination judged by a 400000 line-event budget; sizes <= 7 states"),
})

CLAIMED.update({
    "C05": ("matcher vs. Brzozowski-derivative reference on all words up to a bound; simplifier: exact equivalence of derivative DFAs + node count",
            "generated trees (biased shapes) and all trees with <= 5-7 nodes; differential against an independent denotational reference",
            "ref/regex.py (derivatives, cross-checked against a Glushkov automaton in the self-test); trees <= ~25 nodes, words <= 8"),
    "C06": ("regexp_to_nfa / dfa_to_regexp results vs. derivative automaton / reference DFA, exact equivalence by product walk",
            "generated and exhaustively enumerated expressions and DFAs; language equality decided exactly for all word lengths per instance",
            "ref/regex.py, ref/fa.py; DFAs <= 5 states; elimination orders sampled through hash seeds and renaming"),
    "C18": ("model-based call histories (union/concat/star/copy over a growing object pool) vs. reference eps-NFA constructions, exact equivalence after every call",
            "generated histories of up to 8 (quick) / 20 (thorough) operations; invariant after every step over all objects in the pool",
            "ref/fa.py; operands share epsilon; default-generator state is set per case to model earlier calls"),
})

CLAIMED.update({
    "C07": ("cfg_accepts_word and every CYK cell vs. least-fixpoint span-derivability reference over arbitrary rules",
            "generated arbitrary grammars x all words up to a bound; generated CNF grammars x words up to length 7 x all table cells",
            "ref/cfg.py (span fixpoint, cross-checked against a word-set fixpoint); <= 5 variables, words <= 4-7"),
    "C08": ("full conversion, each pure phase and the cumulative notebook pipeline vs. reference language on all words up to L + own postcondition predicates",
            "generated grammars incl. shared right-hand sides, unit cycles, 23-28 variables, taken start hints; bounded language equality with the reference on both sides",
            "ref/cfg.py; language equality bounded to length 4-6 (CFG equivalence is undecidable)"),
    "C09": ("pda_accepts_word vs. exact saturation reference; soundness for every limit, completeness when reference closure sizes stay within the limit",
            "generated random and structured PDAs x all words up to length 3-4 x eight closure limits",
            "ref/pda.py (saturation, cross-checked against bounded-stack search); <= 4 states"),
    "C10": ("three normal forms and pda_to_cfg vs. saturation reference / span fixpoint on all words up to L, structural predicates on the result",
            "generated random and structured PDAs (acceptance with non-empty stack, marker symbols in Gamma, 0 or several accepting states)",
            "ref/pda.py, ref/cfg.py; languages compared on words up to length 3-4"),
    "C11": ("tm_accepts_word / tm_simulate_word vs. reference Sipser simulator: verdict identity, element-wise traces, budget monotonicity",
            "generated deterministic TMs x all words up to length 3-4 x step budgets {0..1000}",
            "ref/tm.py (cross-checked against a two-stack simulator); <= 5 states"),
})

CLAIMED.update({
    "C02": ("each enumerator vs. the matching acceptance test on every word of Sigma^<=n (differential, as stated), length/alphabet predicates, generate_language agreement",
            "generated objects of the six kinds x bounds n in 0..4 (n = 0, 1 over-weighted) x TM budgets / PDA closure limits; PDA equality only when the reference's closure sizes stay within the limit",
            "acceptance tests are tied to independent references by C01/C05/C07/C09/C11; ref/pda.py for the closure-size precondition"),
})

CLAIMED.update({
    "C15": ("simulation rows / derivations validated by independent step checkers; a run for exactly the accepted words; termination by deterministic line-event budget",
            "generated DFAs, NFAs (eps chains, cycles, chord shape), PDAs (closure limit 20) x all words up to length 3-5; CNF grammars x generated words x {leftmost, rightmost}",
            "ref/fa.py, ref/pda.py, ref/cfg.py; termination: 60000 (NFA) / 400000 (PDA) line events, escalated x5 once per function"),
    "C16": ("round trip print -> parse compared field by field with the spec; regexps: same language (exact) and identical printed form; grammars: own comparison and CFG.__eq__",
            "generated representable DFA/NFA/PDA/TM specs, expression trees (three printers; exhaustive <= 5-6 nodes) and simple-format grammars",
            "ref/text.py canon, ref/regex.py; printable eps/blank; single-character symbols"),
    "C17": ("independent renderer in generated layouts -> parser -> field-wise comparison; every single-fault corruption must raise; token soup: returned objects satisfy own class-invariant predicates",
            "generated specs of the four kinds x layouts (omissions only where derivable / documented defaults) x corruption classes named by the property x perturbed and assembled texts",
            "ref/text.py (renderer, omission rules, corruptions); 'rejected' = any exception"),
})

CLAIMED.update({
    "C12": ("each checker's stdout verdict vs. an independent criterion evaluated on the known answer spec (soundness: OK => criterion); counterexample words checked for genuineness, polarity, minimality",
            "14 clauses covering all listed checkers; answers: reference key, single mutation, independent object, ill-formed text; instances from the object generators",
            "criteria use only ref/* semantics; PDA instances within closure limit 60; completeness of checkers is not asserted here (C13)"),
})

CLAIMED.update({
    "C13": ("composition generator -> printer -> parser -> checker exactly as notebooks/make_notebook.py does it; required outcome: first stdout line OK; shipped notebooks executed in-process",
            "generated reference objects for every exercise type (for-language x6, nfa2dfa, dfa2regexp, products, complement, reverse, minimal x2, CYK, derivations x3, Chomsky phases 1-5) + all 19 shipped notebooks",
            "domain restricted to what the text formats can express (see assumptions in the evidence); make_notebook.py imported from the working tree"),
})

CLAIMED.update({
    "C19": ("argument snapshots before/after every registry operation; same cases evaluated under several PYTHONHASHSEED values and result signatures compared across processes; "
            "model-based call histories with repeated probes; logging on/off differential",
            "registry of 65 pure operations x generated arguments; 6 (quick) / 16 (thorough) interpreter processes with different hash seeds; histories of up to 14 steps",
            "signatures as described in the evidence assumptions; PDA arguments closure-complete within limit 60; hash orders are sampled, not enumerated"),
})

NOT_YET = {
}


def main():
    props = [json.loads(l) for l in open(os.path.join(ROOT, "properties.jsonl"), encoding="utf8")]
    checks = []
    na = []
    for p in props:
        pid = p["id"]
        if pid in CLAIMED:
            tech, text, note = CLAIMED[pid]
            checks.append({
                "property_id": pid,
                "quick_cmd": "%s harness/check.py %s --tier quick" % (PY, pid),
                "thorough_cmd": "%s harness/check.py %s --tier thorough" % (PY, pid),
                "evidence_file": "evidence/%s.json" % pid,
                "replay_cmd_template": "%s harness/check.py %s --replay {path}" % (PY, pid),
                "engine": "pbt",
                "level_claimed": {"category": "exploration", "text": text, "design_ref": "DESIGN.md section 5, %s" % pid},
                "level_note": note,
                "technique": "property-based testing (Hypothesis) + exhaustive small-scope enumeration: " + tech +
                             "; thorough tier additionally: coverage-guided fuzzing (atheris/libFuzzer through Hypothesis' fuzz_one_input) of the core clauses with the same oracle",
            })
        else:
            na.append({"property_id": pid, "reason": NOT_YET.get(pid, "check not built yet in this round (planned, see DESIGN.md section 5)")})
    m = {
        "version": 1,
        "setup_cmd": "sh setup.sh",
        "hooks": {"guard": "GAMBATOOLS_VERIF", "enable": "no source hooks are needed; checks import the working tree via PYTHONPATH=/repo/src",
                  "baseline_off_cmd": "cd /repo && /venv/bin/python -m pytest -ra -q -p no:cacheprovider --timeout=900 --continue-on-collection-errors",
                  "source_commits": [], "add_only": True},
        "engines": [{"name": "pbt", "path": "harness/check.py", "serves_properties": sorted(CLAIMED),
                     "kind_free_text": "Hypothesis-driven clause engine with independent reference models (ref/), exhaustive small-scope tiers, multi-hash-seed workers, replay files; "
                                       "coverage-guided second driver (atheris) for the core clauses in the thorough tier"}],
        "checks": checks,
        "not_applicable": na,
        "notes": "All checks: python harness/check.py <id> --tier quick|thorough; VERIF_SEED honoured; exit 2 = harness problem, never a violation.",
    }
    with open(os.path.join(ROOT, "MANIFEST.json"), "w", encoding="utf8") as f:
        json.dump(m, f, indent=1, ensure_ascii=False)
    print("claimed", len(checks), "not_applicable", len(na))


if __name__ == "__main__":
    main()
