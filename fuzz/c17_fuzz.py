#!/usr/bin/env python3
"""Coverage-guided (atheris / libFuzzer) driver for the C17 token-soup oracle:
whenever a parser returns, the object satisfies the class invariants of its kind.

usage: c17_fuzz.py <outdir> <runs> <seed>
The semantic oracle is inside the target; a failing input is saved as a case file
(<outdir>/fail-<n>.json, same format as the Hypothesis clause `token_soup`, so that
`check.py C17 --replay` can re-run it) and fuzzing continues.  Statistics go to <outdir>/stats.json.
"""
import json
import os
import sys

ROOT = os.path.dirname(os.path.dirname(os.path.abspath(__file__)))
sys.path.insert(0, ROOT)
DEPS = os.path.join(ROOT, ".deps")
if os.path.isdir(DEPS):
    sys.path.append(DEPS)
sys.path.insert(0, os.environ.get("GAMBATOOLS_SRC", "/repo/src"))

import atheris  # noqa: E402

with atheris.instrument_imports(include=["gambatools"]):
    from props import c17  # noqa: E402  (imports the parsers)

from harness.engine import Fail  # noqa: E402

OUT, RUNS, SEED = sys.argv[1], int(sys.argv[2]), int(sys.argv[3])
KINDS = ["dfa", "nfa", "pda", "tm"]
STATS = {"executions": 0, "returned_object": 0, "rejected": 0, "failures": [], "distinct_returned": 0}
SEEN = set()
BUCKETS = set()
SAMPLES = []


def flush():
    STATS["distinct_returned"] = len(SEEN)
    STATS["samples"] = SAMPLES[:3]
    with open(os.path.join(OUT, "stats.json"), "w", encoding="utf8") as f:
        json.dump(STATS, f, ensure_ascii=False)


def build(data):
    """byte 0: parser kind; byte 1: mode (odd = raw UTF-8 text, even = one token per byte, 255 = newline)."""
    if len(data) < 2:
        return {"kind": "dfa", "text": ""}
    kind = KINDS[data[0] % 4]
    if data[1] & 1:
        text = data[2:].decode("utf8", "ignore")
    else:
        lines, cur = [], []
        for x in data[2:]:
            if x == 255:
                lines.append(" ".join(cur))
                cur = []
            else:
                cur.append(c17.TOKENS[x % len(c17.TOKENS)])
        lines.append(" ".join(cur))
        text = "\n".join(lines)
    return {"kind": kind, "text": text}


def seed_corpus(corpus):
    """A few small valid inputs: the shipped examples of each kind and one rendered text per kind."""
    import glob
    from ref import text as RT
    ex = os.path.join(os.path.dirname(os.environ.get("GAMBATOOLS_SRC", "/repo/src")), "examples")
    n = 0
    for k, ext in enumerate(KINDS):
        for path in sorted(glob.glob(os.path.join(ex, "*." + ext)))[:3]:
            with open(path, "rb") as f:
                body = f.read()
            with open(os.path.join(corpus, "seed-%d" % n), "wb") as f:
                f.write(bytes([k, 1]) + body)
            n += 1
    specs = {"dfa": {"Q": ["q0", "q1"], "S": ["a", "b"], "d": [["q0", "a", "q1"], ["q0", "b", "q0"], ["q1", "a", "q1"], ["q1", "b", "q0"]], "q0": "q0", "F": ["q1"]},
             "nfa": {"Q": ["q0", "q1"], "S": ["a"], "d": [["q0", "_", "q1"], ["q1", "a", "q1"]], "q0": "q0", "F": ["q1"], "eps": "_"},
             "pda": {"Q": ["p", "q"], "S": ["a"], "G": ["$"], "d": [["p", "_", "_", "q", "$"], ["q", "a", "$", "q", "_"]], "q0": "p", "F": ["q"], "eps": "_"},
             "tm": {"Q": ["s", "accept", "reject"], "S": ["a"], "G": ["a", "_"], "d": [["s", "a", "s", "_", "R"], ["s", "_", "accept", "_", "R"]], "q0": "s", "acc": "accept", "rej": "reject", "blank": "_"}}
    for k, kind in enumerate(KINDS):
        with open(os.path.join(corpus, "seed-r%d" % k), "wb") as f:
            f.write(bytes([k, 1]) + RT.render(kind, specs[kind], {"group": True}).encode("utf8"))


def TestOneInput(data):
    case = build(data)
    STATS["executions"] += 1
    try:
        info = c17.run_soup(case)
        if info.get("nt"):
            STATS["returned_object"] += 1
            h = hash((case["kind"], case["text"]))
            if h not in SEEN:
                SEEN.add(h)
                if len(SAMPLES) < 3:
                    SAMPLES.append(case)
        else:
            STATS["rejected"] += 1
    except Fail as f:
        if f.sub not in BUCKETS:
            BUCKETS.add(f.sub)
            path = os.path.join(OUT, "fail-%d.json" % len(BUCKETS))
            with open(path, "w", encoding="utf8") as fh:
                json.dump({"property": "C17", "clause": "token_soup", "bucket": f.sub, "case": case, "msg": f.msg, "hashseed": os.environ.get("PYTHONHASHSEED", "0")}, fh, ensure_ascii=False)
            STATS["failures"].append({"bucket": f.sub, "msg": f.msg[:300], "file": path})
            flush()
    if STATS["executions"] % 2000 == 0 or STATS["executions"] >= RUNS:
        flush()


if __name__ == "__main__":
    os.makedirs(OUT, exist_ok=True)
    corpus = os.path.join(OUT, "corpus")
    os.makedirs(corpus, exist_ok=True)
    if len(sys.argv) > 4 and sys.argv[4] == "seeded":
        seed_corpus(corpus)
    atheris.Setup([sys.argv[0], "-runs=%d" % RUNS, "-seed=%d" % (SEED or 1), "-max_len=400", "-verbosity=0", "-print_final_stats=0", corpus], TestOneInput)
    atheris.Fuzz()
