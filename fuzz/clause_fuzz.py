#!/usr/bin/env python3
"""Coverage-guided (atheris / libFuzzer) driver for any Hypothesis clause.

usage: clause_fuzz.py <Cxx> <clause> <outdir> <runs> <seed> <tier> <widx> <nworkers> <vseed>

The clause's own strategy is driven through Hypothesis' `fuzz_one_input` (the fuzzer's bytes replace Hypothesis' random
choices), the library package is instrumented for coverage feedback, and every generated case goes through the same
`ClauseRunner.evaluate` as in the Hypothesis driver: same oracle, same classification, same known-finding exclusion, same
watchdog.  A failing case is recorded (first case per failure bucket, in the replay format of the base clause) and fuzzing
continues behind it.  The result fragment is written to <outdir>/result.json every 200 executions and at the end.
"""
import json
import os
import sys

ROOT = os.path.dirname(os.path.dirname(os.path.abspath(__file__)))
sys.path.insert(0, ROOT)
DEPS = os.path.join(ROOT, ".deps")
if os.path.isdir(DEPS):
    sys.path.append(DEPS)
sys.path.insert(0, os.environ.get("GAMBATOOLS_SRC", "/repo/src"))

import atheris  # noqa: E402

PROP, CLAUSE, OUT, RUNS, SEED, TIER = sys.argv[1], sys.argv[2], sys.argv[3], int(sys.argv[4]), int(sys.argv[5]), sys.argv[6]
WIDX, NWORKERS, VSEED = int(sys.argv[7]), int(sys.argv[8]), int(sys.argv[9])

with atheris.instrument_imports(include=["gambatools"]):
    import importlib
    mod = importlib.import_module("props.%s" % PROP.lower())

import hypothesis  # noqa: E402
from hypothesis import HealthCheck, given, settings  # noqa: E402

from harness import engine  # noqa: E402

clause = next(c for c in mod.CLAUSES if c.name == CLAUSE)
with open(os.path.join(ROOT, "known_findings.json"), encoding="utf8") as f:
    known = json.load(f).get("findings", [])
runner = engine.ClauseRunner(PROP, clause, 0, TIER, WIDX, NWORKERS, VSEED, known, getattr(mod, "KNOWN_PREDICATES", {}), os.environ.get("PYTHONHASHSEED"))
STATE = {"executions": 0, "generated": 0, "stop": False}


def flush():
    res = runner.result()
    res["executions"] = STATE["executions"]
    res["generated"] = STATE["generated"]
    tmp = os.path.join(OUT, "result.json.tmp")
    with open(tmp, "w", encoding="utf8") as f:
        json.dump(res, f, ensure_ascii=False, default=str)
    os.replace(tmp, os.path.join(OUT, "result.json"))


@settings(database=None, deadline=None, suppress_health_check=list(HealthCheck))
@given(clause.strategy(TIER))
def test(case):
    STATE["generated"] += 1
    f = runner.evaluate(case, raising=False)
    if f is not None and f.sub not in runner.excluded:
        runner.failures.append({"bucket": f.sub, "case": case, "msg": "[coverage-guided] " + f.msg, "details": f.details})
        runner.excluded.add(f.sub)
        flush()


FUZZ = test.hypothesis.fuzz_one_input


def TestOneInput(data):
    STATE["executions"] += 1
    if not STATE["stop"]:
        try:
            FUZZ(data)
        except engine.StopClause:
            runner.stats["stopped_early"] = True
            STATE["stop"] = True
        except engine.Inconclusive:
            pass
        except hypothesis.errors.HypothesisException:
            pass
        except BaseException as e:  # oracle / harness problem: reported as such (exit 2 of the check), never as a violation
            import traceback
            if len(runner.errors) < 3:
                runner.errors.append("harness error in coverage-guided driver of %s: %s" % (CLAUSE, "".join(traceback.format_exception(type(e), e, e.__traceback__))[-1200:]))
    if STATE["executions"] % 200 == 0 or STATE["executions"] >= RUNS - 1:
        flush()


if __name__ == "__main__":
    os.makedirs(OUT, exist_ok=True)
    corpus = os.path.join(OUT, "corpus")
    os.makedirs(corpus, exist_ok=True)
    # starting corpus: pseudo-random byte strings of 0.25-4 KB (a hash chain of the seed: reproducible), which Hypothesis turns into cases of ordinary size;
    # without them libFuzzer starts from the empty input and spends a short campaign on the smallest cases only
    import hashlib
    for i in range(48):
        n = [256, 512, 1024, 2048, 4096][i % 5]
        buf, j = b"", 0
        while len(buf) < n:
            buf += hashlib.sha256(b"%d-%d-%d-%s-%s" % (SEED, i, j, PROP.encode(), CLAUSE.encode())).digest()
            j += 1
        with open(os.path.join(corpus, "seed-%02d" % i), "wb") as fh:
            fh.write(buf[:n])
    flush()
    atheris.Setup([sys.argv[0], "-runs=%d" % RUNS, "-seed=%d" % (SEED or 1), "-max_len=4096", "-verbosity=0", "-print_final_stats=0", corpus], TestOneInput)
    atheris.Fuzz()
