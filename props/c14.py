"""C14 - DFA closure constructions and the finite-language helpers."""
from hypothesis import strategies as st

from harness.engine import Clause, Fail, lib
from ref import fa, lang
from gen import fa as G
from bridge import fa as B

from gambatools.dfa import DFA
from gambatools.nfa import NFA
from gambatools import dfa_algorithms as DA
from gambatools import language_algorithms as LA

ASSUMPTIONS = [
    "pairs of DFAs share one alphabet (the constructions assert it); state names \\w+",
    "partial DFA objects for totalisation are built with check_validity=False, as cfg_to_dfa does",
    "finite languages: <= 12 words of length <= 5 over <= 3 symbols",
]


def result_rdfa(obj, sigma):
    """Validity + reference automaton of a returned DFA or NFA."""
    if isinstance(obj, DFA):
        snap = B.snap_dfa(obj)
        err = fa.valid_dfa_snapshot(snap)
        if err:
            raise Fail("invalid_dfa", err)
        R = fa.rdfa(snap)
    elif isinstance(obj, NFA):
        snap = B.snap_nfa(obj)
        err = fa.valid_nfa_snapshot(snap)
        if err:
            raise Fail("invalid_nfa", err)
        R = fa.determinise(snap)
    else:
        raise Fail("type", "returned %r" % type(obj))
    if sorted(snap["S"]) != sorted(sigma):
        raise Fail("alphabet", "result alphabet %r, expected %r" % (snap["S"], sorted(sigma)))
    return snap, R


def nontrivial_lang(A):
    c = fa.canonical_min(A)
    return len(c[1]) >= 2


def run_binary(case):
    s1, s2, op = case["d1"], case["d2"], case["op"]
    D1 = B.mk_dfa(s1)
    D2 = D1 if case.get("same_object") else B.mk_dfa(s2)       # the same object may be passed as both operands
    b1, b2 = B.canon(s1), B.canon(s2)
    fn = {"union": DA.dfa_union, "intersection": DA.dfa_intersection, "symmetric_difference": DA.dfa_symmetric_difference}[op]
    pyop = {"union": lambda x, y: x or y, "intersection": lambda x, y: x and y, "symmetric_difference": lambda x, y: x != y}[op]
    if case.get("logging"):
        import contextlib
        import io
        from gambatools.global_settings import GambaTools
        old = GambaTools.enable_logging
        GambaTools.enable_logging = True
        try:
            with contextlib.redirect_stdout(io.StringIO()):
                res = lib(fn, D1, D2)
        finally:
            GambaTools.enable_logging = old
    else:
        res = lib(fn, D1, D2)
    snap, R = result_rdfa(res, s1["S"])
    A1, A2 = fa.rdfa(s1), fa.rdfa(s2)
    want = fa.product(A1, A2, pyop)
    w = fa.equiv(R, want)
    if w is not None:
        raise Fail(op, "dfa_%s differs from the %s of the languages on word %r" % (op, op, w), word=w)
    if B.snap_dfa(D1) != b1 or B.snap_dfa(D2) != b2:
        raise Fail("mutates_argument", "an argument DFA was changed")
    nt = nontrivial_lang(A1) and nontrivial_lang(A2) and fa.equiv(want, A1) is not None and fa.equiv(want, A2) is not None
    if case.get("same_object"):
        return {"nt": nontrivial_lang(A1), "cls": [op, "same_object_twice"], "out": {"result_states": len(snap["Q"])}}
    return {"nt": nt, "cls": [op, "overlapping_names" if set(s1["Q"]) & set(s2["Q"]) else "disjoint_names"], "out": {"result_states": len(snap["Q"])}}


def run_unary(case):
    s, op = case["dfa"], case["op"]
    D = B.mk_dfa(s)
    before = B.canon(s)
    A = fa.rdfa(s)
    fn = {"complement": DA.dfa_complement, "reverse": DA.dfa_reverse, "no_prefix": DA.dfa_no_prefix, "no_extend": DA.dfa_no_extend,
          "remove_unreachable": DA.dfa_remove_unreachable_states}[op]
    want = {"complement": fa.complement, "reverse": fa.reverse, "no_prefix": fa.no_prefix, "no_extend": fa.no_extend,
            "remove_unreachable": lambda x: x}[op](A)
    res = lib(fn, D)
    snap, R = result_rdfa(res, s["S"])
    w = fa.equiv(R, want)
    if w is not None:
        raise Fail(op, "dfa_%s: language differs from the specified one on word %r" % (op, w), word=w)
    if op == "remove_unreachable":
        if not set(snap["Q"]) <= set(s["Q"]):
            raise Fail("remove_unreachable_states_new", "result has states that are not input states")
        if len(fa.reachable(R)) != len(snap["Q"]):
            raise Fail("remove_unreachable_states_left", "result still has unreachable states")
    if B.snap_dfa(D) != before:
        raise Fail("mutates_argument", "the argument DFA was changed by dfa_%s" % op)
    changed = fa.equiv(want, A) is not None
    nt = nontrivial_lang(A) and (changed or op == "remove_unreachable" and len(fa.reachable(A)) < len(s["Q"]))
    return {"nt": nt, "cls": [op], "out": {"result_states": len(snap["Q"])}}


def run_total(case):
    s, inplace = case["dfa"], case["in_place"]
    if case.get("full"):
        # built total (with the constructor's validity check), then made partial by deleting transitions from the object
        D = B.mk_dfa(case["full"])
        gone = {(p, a) for p, a, q in case["full"]["d"]} - {(p, a) for p, a, q in s["d"]}
        for key in sorted(gone):
            del D.delta[key]
    else:
        D = B.mk_dfa(s, check=False)
    before = B.canon(s)
    if inplace:
        lib(DA.dfa_make_total_in_place, D)
        res = D
    else:
        res = lib(DA.dfa_make_total, D)
    snap, R = result_rdfa(res, s["S"])
    want = fa.rdfa(s)  # a missing move rejects
    w = fa.equiv(R, want)
    if w is not None:
        raise Fail("make_total", "totalised DFA differs from the partial one on word %r" % w, word=w)
    if not inplace and B.snap_dfa(D) != before:
        raise Fail("mutates_argument", "dfa_make_total changed its argument")
    missing = len(s["Q"]) * len(s["S"]) - len(s["d"])
    return {"nt": missing > 0 and bool(s["F"]), "cls": ["in_place" if inplace else "copy", "partial" if missing else "already_total"] + (["made_partial_after_construction"] if case.get("full") else []),
            "out": {"missing": missing}}


def run_lang(case):
    L1, L2, S, n = set(case["L1"]), set(case["L2"]), case["S"], case["n"]
    a1, a2 = set(L1), set(L2)
    checks = [
        ("language_reverse", lambda: LA.language_reverse(a1), lang.reverse(L1)),
        ("language_no_prefix", lambda: LA.language_no_prefix(a1), lang.no_prefix(L1)),
        ("language_no_extend", lambda: LA.language_no_extend(a1), lang.no_extend(L1)),
        ("concatenation", lambda: LA.concatenation(a1, a2), lang.concat(L1, L2)),
        ("union", lambda: LA.union(a1, a2), L1 | L2),
        ("intersection", lambda: LA.intersection(a1, a2), L1 & L2),
        ("symmetric_difference", lambda: LA.symmetric_difference(a1, a2), L1 ^ L2),
        ("words_of_length_n", lambda: LA.words_of_length_n(set(S), n), lang.words_of_length(S, n)),
        ("words_up_to_n", lambda: LA.words_up_to_n(set(S), n), lang.words_up_to(S, n)),
    ]
    for name, fn, want in checks:
        got = lib(fn)
        if got != want:
            extra, missing = sorted(got - want), sorted(want - got)
            raise Fail(name, "%s: extra %r, missing %r" % (name, extra[:3], missing[:3]))
        if a1 != L1 or a2 != L2:
            raise Fail("mutates_argument", "%s changed its argument" % name)
    removed = (lang.no_prefix(L1) != L1) + (lang.no_extend(L1) != L1)
    cls = []
    if "" in L1:
        cls.append("contains_empty_word")
    if lang.no_prefix(L1) != L1:
        cls.append("no_prefix_removes")
    if lang.no_extend(L1) != L1:
        cls.append("no_extend_removes")
    return {"nt": removed >= 1 and len(L1) >= 2, "cls": cls, "out": {"|L1|": len(L1), "|L2|": len(L2)}}


@st.composite
def binary_cases(draw, tier):
    S = draw(G.alphabets(0 if draw(st.integers(0, 9)) == 0 else 1, 2))
    overlap = draw(st.booleans())
    lo = 1 if draw(st.integers(0, 9)) == 0 else 2
    if draw(st.integers(0, 4)) == 0:
        # names joined by '_': the pairs (s, t_u) and (s_t, u) spell the same text when the components are joined
        d1 = draw(G.dfa_specs(min_states=lo, max_states=4, sigma=S, pool=["s", "s_t", "s_t_u", "t"]))
        d2 = draw(G.dfa_specs(min_states=lo, max_states=4, sigma=S, pool=["u", "t_u", "u_v", "t_u_v"]))
    else:
        d1 = draw(G.dfa_specs(min_states=lo, max_states=4, sigma=S, pool=G.POOL[:10]))
        d2 = draw(G.dfa_specs(min_states=lo, max_states=4, sigma=S, pool=G.POOL[:10] if overlap else G.POOL[10:22]))
    same = draw(st.integers(0, 11)) == 0
    if draw(st.integers(0, 2)) == 0:
        # equal alphabets (and state sets) that are different set objects with different histories: they may enumerate their elements in different orders
        d1 = dict(d1, set_hist=draw(st.integers(0, 3)))
        d2 = dict(d2, set_hist=draw(st.integers(0, 3)))
    return {"d1": d1, "d2": d1 if same else d2, "same_object": same, "op": draw(st.sampled_from(["union", "intersection", "symmetric_difference"])), "logging": draw(st.integers(0, 5)) == 0}


@st.composite
def unary_cases(draw, tier):
    k = draw(st.integers(0, 8))
    if k == 8:
        return {"dfa": draw(G.late_exit_cycle_dfa_specs()), "op": draw(st.sampled_from(["no_extend", "no_extend", "no_prefix", "complement", "reverse", "remove_unreachable"]))}
    if k in (1, 2):
        # 6-12 states: cycles of non-accepting states with a late exit, long distinguishing words (recursive / memoised searches differ from fixpoints only there)
        big = draw(G.dfa_specs(min_states=6, max_states=12, max_sigma=2))
        if draw(st.booleans()):
            # few accepting states: most states reach acceptance only through long paths and cycles of non-accepting states
            Q = big["Q"]
            big = dict(big, F=sorted(set([Q[draw(st.integers(0, len(Q) - 1))]] + ([big["q0"]] if draw(st.booleans()) else []) + ([Q[draw(st.integers(0, len(Q) - 1))]] if draw(st.booleans()) else []))))
        if draw(st.booleans()):
            # funnel states: all symbols lead to the same successor (chains and cycles with a single way on; a search that closes a cycle there has no alternative)
            tgt = {}
            funnel = set(q for q in big["Q"] if draw(st.integers(0, 2)) == 0)
            d = []
            for p, a, q in big["d"]:
                if p in funnel:
                    q = tgt.setdefault(p, q)
                d.append([p, a, q])
            big = dict(big, d=d)
        return {"dfa": big, "op": draw(st.sampled_from(["no_extend", "no_prefix", "complement", "reverse", "no_extend", "remove_unreachable"]))}
    return {"dfa": draw(G.routes_dfa_specs()) if k == 0 else draw(G.dfa_specs(max_states=5, max_sigma=2, odd=["_", " "])),      # not 'ε': dfa_reverse / dfa_no_prefix use it as the epsilon of the NFA they build (asserted by the NFA class)
            "op": draw(st.sampled_from(["complement", "reverse", "no_prefix", "no_extend", "remove_unreachable"]))}


@st.composite
def total_cases(draw, tier):
    s = draw(G.dfa_specs(max_states=4, max_sigma=2))
    keep = [t for t in s["d"] if draw(st.integers(0, 3)) > 0]
    full = s
    s = dict(s, d=keep)
    return {"dfa": s, "in_place": draw(st.booleans()), "full": full if draw(st.booleans()) else None}


@st.composite
def lang_cases(draw, tier):
    S = draw(G.alphabets(1, 3, syms=["a", "b", "c"]))
    if draw(st.integers(0, 7)) == 0:
        # the helpers work on arbitrary strings: characters at the top of the BMP and beyond it
        S = draw(st.sampled_from([["a", "\U0001d44e"], ["\uffff", "a"], ["\U0010ffff", "b"], ["\ufffe", "\uffff", "\U00010000"]]))
    w = st.text(alphabet=S, max_size=5)
    L1 = draw(st.lists(w, max_size=8, unique=True))
    # bias: add prefixes / reversals / extensions of members
    for x in list(L1):
        k = draw(st.integers(0, 5))
        if k == 0 and x:
            L1.append(x[:draw(st.integers(0, len(x) - 1))])
        elif k == 1:
            L1.append(x[::-1])
        elif k == 2:
            L1.append(x + draw(st.sampled_from(S)))
    L1 = sorted(set(L1))
    L2 = sorted(set(draw(st.lists(w, max_size=5, unique=True))))
    return {"L1": L1, "L2": L2, "S": S, "n": draw(st.integers(0, 4))}


def ex_unary(tier):
    n = 2 if tier == "quick" else 3
    def gen():
        for s in G.all_dfas(n, ["a", "b"] if n == 2 else ["a"]):
            for op in ["complement", "reverse", "no_prefix", "no_extend", "remove_unreachable"]:
                yield {"dfa": s, "op": op}
    return ("all DFAs with <= %d states (alphabet {a,b} for 2, {a} for 3) x 5 unary constructions" % n, gen())


CLAUSES = [
    Clause("binary", binary_cases, run_binary, quick=1500, thorough=8000,
           rule="pairs of DFAs over a common alphabet (overlapping or disjoint state names) x {union, intersection, symmetric difference}; "
                "result valid and exactly equivalent (product walk) to the boolean product of the argument specs; non-trivial: both languages "
                "non-trivial and the result differs from each argument"),
    Clause("unary", unary_cases, run_unary, quick=1200, thorough=10000, exhaustive=ex_unary,
           rule="DFAs x {complement, reverse, no_prefix, no_extend, remove_unreachable}; exact equivalence with reference constructions built from "
                "the word-level definitions; non-trivial: non-trivial language and the operation changes it (or removes states)"),
    Clause("make_total", total_cases, run_total, quick=500, thorough=4000,
           rule="partial DFA objects (random transitions dropped) x {dfa_make_total, dfa_make_total_in_place}; result valid, total, same language "
                "(missing move = reject); non-trivial: at least one missing move and F non-empty"),
    Clause("lang_helpers", lang_cases, run_lang, quick=800, thorough=8000,
           rule="finite languages biased to contain prefixes, extensions and reversals of members; helpers compared with set-comprehension "
                "definitions taken from their docstrings; non-trivial: no_prefix or no_extend removes a word"),
]
KNOWN_PREDICATES = {}

# coverage-guided second driver (atheris / libFuzzer through Hypothesis' fuzz_one_input) for the core clauses: (clause, quick runs, thorough runs)
from harness.covfuzz import cov_clauses  # noqa: E402
CLAUSES += cov_clauses('C14', CLAUSES, [('binary', 3000, 20000), ('unary', 3000, 20000), ('lang_helpers', 2000, 13333)])
