"""C09 - PDA acceptance is always sound and is complete below the eps-closure limit."""
from hypothesis import strategies as st

from harness.engine import Clause, Fail, lib
from ref import pda as RP
from gen import pda as GP, fa as G
from bridge import pda as BP

from gambatools.global_settings import GambaTools
from gambatools.pda_algorithms import pda_accepts_word

ASSUMPTIONS = [
    "PDA transition maps are defaultdict(set) (what parse_pda yields); stack symbols from \\w and ~!@#$%^&*; the stack symbol '∅' is not used",
    "completeness is asserted only when every eps-closure of the closure/step alternation (true semantics, computed by the reference) "
    "has at most `limit` configurations",
]
LIMITS = [1, 2, 3, 5, 8, 20, 50, 1000]


def run(case):
    spec, limit = case["pda"], case["limit"]
    P = BP.mk_pda(spec)
    before = BP.canon(spec)
    ws = G.all_words(spec["S"], case["L"])
    old = GambaTools.pda_epsilon_closure_max_iterations
    GambaTools.pda_epsilon_closure_max_iterations = limit
    cls = set(GP.classes(spec))
    nt = False
    complete_checked = 0
    try:
        for w in ws:
            got = lib(pda_accepts_word, P, w)
            want = RP.accepts(spec, w)
            if got is True and not want:
                raise Fail("unsound", "pda_accepts_word(%r) = True with limit %d, but no accepting computation exists" % (w, limit), word=w)
            if got not in (True, False):
                raise Fail("type", "pda_accepts_word returned %r" % (got,))
            sizes = RP.closure_sizes(spec, w, limit)
            within = all(s <= limit for s in sizes)
            cls.add("limit_hit" if not within else "within_limit")
            if want and within:
                complete_checked += 1
                if got is not True:
                    raise Fail("incomplete", "pda_accepts_word(%r) = %r with limit %d although an accepting computation exists and all closures have "
                               "at most %d configurations (sizes %r)" % (w, got, limit, limit, sizes), word=w)
                if "push" in cls and ("pop" in cls or "replace" in cls):
                    nt = True
            if want and max(sizes) == limit:
                cls.add("closure_size_equals_limit")
    finally:
        GambaTools.pda_epsilon_closure_max_iterations = old
    if BP.snap_pda(P) != before:
        raise Fail("mutates_argument", "pda_accepts_word changed the PDA")
    return {"nt": nt, "cls": sorted(cls), "out": {"limit": limit, "words": len(ws), "completeness_checked": complete_checked}}


@st.composite
def cases(draw, tier):
    spec = draw(GP.mixed_pda_specs(max_states=3 if tier == "quick" else 4, max_trans=7, odd=True))
    # bias: make some state accepting so that there is something to accept
    if not spec["F"] and draw(st.booleans()):
        spec["F"] = [spec["Q"][-1]]
    L = 3 if len(spec["S"]) == 2 else 4
    limit = draw(st.sampled_from(LIMITS))
    if draw(st.booleans()):
        # boundary: a limit equal to (or one above) the largest true closure size of this automaton on the tested words
        sizes = [max(RP.closure_sizes(spec, w, 40)) for w in G.all_words(spec["S"], L)]
        m = max(sizes)
        if m <= 40:
            limit = m + draw(st.integers(0, 1))
    return {"pda": spec, "limit": limit, "L": L}


CLAUSES = [
    Clause("accepts", cases, run, quick=700, thorough=6000,
           rule="random PDAs (1-4 states, push/pop/no-op/replace moves, eps-loops growing or not) x all words up to length 3-4 x closure limits "
                "{1,2,3,5,8,20,50,1000} or exactly the largest true closure size (+0/+1); oracle: exact saturation (balanced relation + unpopped pushes); sound always, complete when the reference's true "
                "closure sizes stay within the limit; non-trivial: a word accepted within the limit by a PDA with push and pop/replace moves"),
]
KNOWN_PREDICATES = {}


# ---- deep closures: limits above the default of 1000 ----

def deep_spec(n_names, eps, sym, other):
    q0, q1, q2, q3 = n_names
    return {"Q": [q0, q1, q2, q3], "S": sorted([sym, other]), "G": ["$", "X"],
            "d": [[q0, eps, eps, q1, "$"], [q1, sym, eps, q1, "X"], [q1, other, eps, q2, eps], [q2, eps, "X", q2, eps], [q2, eps, "$", q3, eps]],
            "q0": q0, "F": [q3], "eps": eps}


def run_deep(case):
    spec, n, limit = case["pda"], case["n"], case["limit"]
    sym, other = case["sym"], case["other"]
    P = BP.mk_pda(spec)
    old = GambaTools.pda_epsilon_closure_max_iterations
    GambaTools.pda_epsilon_closure_max_iterations = limit
    try:
        out = {}
        for w in (sym * n + other, sym * n, sym * (n // 2) + other + sym):
            want = RP.accepts_bounded(spec, w, len(w) + 2)       # exact for this family: every push consumes an input symbol
            got = lib(pda_accepts_word, P, w)
            if got is True and not want:
                raise Fail("unsound", "pda_accepts_word accepts a word of length %d without an accepting computation (limit %d)" % (len(w), limit))
            sizes = RP.closure_sizes(spec, w, limit)
            if want and all(s <= limit for s in sizes) and got is not True:
                raise Fail("incomplete_deep", "pda_accepts_word rejects %s^%d %s with limit %d although all closures have at most %d configurations (largest %d)"
                           % (sym, n, other, limit, limit, max(sizes)))
            out[len(w)] = (want, max(sizes))
    finally:
        GambaTools.pda_epsilon_closure_max_iterations = old
    return {"nt": True, "cls": ["limit_above_default" if limit > 1000 else "limit_at_most_default", "closure_above_1000" if n + 2 > 1000 else "closure_small"],
            "out": {"n": n, "limit": limit}}


@st.composite
def deep_cases(draw, tier):
    eps = draw(st.sampled_from(["", "ε", "_"]))
    names = draw(G.names(4))
    sym, other = draw(st.sampled_from([("a", "b"), ("b", "a"), ("0", "1")]))
    n = draw(st.sampled_from([1001, 1100, 1250] if tier == "quick" else [1001, 1100, 1250, 1500, 1998]))
    limit = draw(st.sampled_from([n + 2, n + 3, 2000, 4000, 1000, 500]))
    return {"pda": deep_spec(names, eps, sym, other), "n": n, "limit": limit, "sym": sym, "other": other}


from props import workbench as WB   # noqa: E402

CLAUSES.append(Clause("object_history", lambda tier: WB.pda_programs(tier, "accept"), WB.run_pda, quick=300, thorough=3000, rule=WB.PDA_RULE))
CLAUSES.append(
    Clause("deep_closure", deep_cases, run_deep, quick=4, thorough=40, watchdog=300,
           rule="family a^n b (n in 1001..1998, states renamed) whose accepting run needs an eps-closure of n+2 configurations x limits around and above "
                "the default 1000 ({n+2, n+3, 2000, 4000, 1000, 500}); reference: configuration search (exact for this family); every case is non-trivial"))


# ---- long words on structured automata (tall stacks next to short ones) ----

def run_long(case):
    spec, limit = case["pda"], case["limit"]
    P = BP.mk_pda(spec)
    old = GambaTools.pda_epsilon_closure_max_iterations
    GambaTools.pda_epsilon_closure_max_iterations = limit
    acc = 0
    try:
        for w in case["words"]:
            w = "".join(c for c in w if c in spec["S"])
            want = RP.accepts(spec, w)
            got = lib(pda_accepts_word, P, w)
            if got is True and not want:
                raise Fail("unsound_long", "pda_accepts_word accepts %r (length %d) with limit %d without an accepting computation" % (w, len(w), limit), word=w)
            sizes = RP.closure_sizes(spec, w, limit)
            if want and all(s <= limit for s in sizes):
                acc += 1
                if got is not True:
                    raise Fail("incomplete_long", "pda_accepts_word(%r) (length %d) = %r with limit %d although an accepting computation exists and the largest closure has %d configurations"
                               % (w, len(w), got, limit, max(sizes)), word=w)
    finally:
        GambaTools.pda_epsilon_closure_max_iterations = old
    return {"nt": acc >= 1, "cls": ["accepted_long_words_%d" % min(acc, 3)], "out": {"words": case["words"][:3], "limit": limit}}


@st.composite
def long_cases(draw, tier):
    spec = draw(GP.structured_pda_specs(max_noise=1))
    n = draw(st.integers(5, 13 if tier == "quick" else 16))
    m = draw(st.integers(0, n))
    shaped = ["a" * n + "b" * n, "a" * n + "b", "a" * n + "b" * m, "a" * n + "bb", ("ab" * n)[:n] + ("ab" * n)[:n][::-1], "a" * n, "b" + "a" * n]
    extra = draw(st.lists(st.text(alphabet="ab", min_size=6, max_size=12), max_size=2))
    limit = draw(st.sampled_from([1000, 60, 200]))
    eps = spec["eps"]
    if limit == 1000 and any(a == eps and u == eps and v != eps for p, a, u, q, v in spec["d"]):
        # a pushing eps-move makes every closure of the library run to the limit with ever longer stacks: minutes per word at 1000 (only soundness is asserted there)
        limit = 200
    return {"pda": spec, "words": shaped + extra, "limit": limit}


CLAUSES.append(
    Clause("long_words", long_cases, run_long, quick=60, thorough=600, watchdog=300,
           rule="structured PDAs (templates with one noise transition, renamed) x words of length 6..28 shaped like a^n b^n, a^n b, a^n b^m, palindromes, plus random "
                "words x limits {60, 200, 1000}; sound always, complete when the closures stay within the limit; non-trivial: a long word accepted within the limit"))

# coverage-guided second driver (atheris / libFuzzer through Hypothesis' fuzz_one_input) for the core clauses: (clause, quick runs, thorough runs)
from harness.covfuzz import cov_clauses  # noqa: E402
CLAUSES += cov_clauses('C09', CLAUSES, [('accepts', 1500, 10000)])
