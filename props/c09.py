"""C09 - PDA acceptance is always sound and is complete below the eps-closure limit."""
from hypothesis import strategies as st

from harness.engine import Clause, Fail, lib
from ref import pda as RP
from gen import pda as GP, fa as G
from bridge import pda as BP

from gambatools.global_settings import GambaTools
from gambatools.pda_algorithms import pda_accepts_word

ASSUMPTIONS = [
    "PDA transition maps are defaultdict(set) (what parse_pda yields); stack symbols from \\w and ~!@#$%^&*; the stack symbol '∅' is not used",
    "completeness is asserted only when every eps-closure of the closure/step alternation (true semantics, computed by the reference) "
    "has at most `limit` configurations",
]
LIMITS = [1, 2, 3, 5, 8, 20, 50, 1000]


def run(case):
    spec, limit = case["pda"], case["limit"]
    P = BP.mk_pda(spec)
    before = BP.canon(spec)
    ws = G.all_words(spec["S"], case["L"])
    old = GambaTools.pda_epsilon_closure_max_iterations
    GambaTools.pda_epsilon_closure_max_iterations = limit
    cls = set(GP.classes(spec))
    nt = False
    complete_checked = 0
    try:
        for w in ws:
            got = lib(pda_accepts_word, P, w)
            want = RP.accepts(spec, w)
            if got is True and not want:
                raise Fail("unsound", "pda_accepts_word(%r) = True with limit %d, but no accepting computation exists" % (w, limit), word=w)
            if got not in (True, False):
                raise Fail("type", "pda_accepts_word returned %r" % (got,))
            sizes = RP.closure_sizes(spec, w, limit)
            within = all(s <= limit for s in sizes)
            cls.add("limit_hit" if not within else "within_limit")
            if want and within:
                complete_checked += 1
                if got is not True:
                    raise Fail("incomplete", "pda_accepts_word(%r) = %r with limit %d although an accepting computation exists and all closures have "
                               "at most %d configurations (sizes %r)" % (w, got, limit, limit, sizes), word=w)
                if "push" in cls and ("pop" in cls or "replace" in cls):
                    nt = True
            if want and max(sizes) == limit:
                cls.add("closure_size_equals_limit")
    finally:
        GambaTools.pda_epsilon_closure_max_iterations = old
    if BP.snap_pda(P) != before:
        raise Fail("mutates_argument", "pda_accepts_word changed the PDA")
    return {"nt": nt, "cls": sorted(cls), "out": {"limit": limit, "words": len(ws), "completeness_checked": complete_checked}}


@st.composite
def cases(draw, tier):
    spec = draw(GP.mixed_pda_specs(max_states=3 if tier == "quick" else 4, max_trans=7))
    # bias: make some state accepting so that there is something to accept
    if not spec["F"] and draw(st.booleans()):
        spec["F"] = [spec["Q"][-1]]
    return {"pda": spec, "limit": draw(st.sampled_from(LIMITS)), "L": 3 if len(spec["S"]) == 2 else 4}


CLAUSES = [
    Clause("accepts", cases, run, quick=700, thorough=6000,
           rule="random PDAs (1-4 states, push/pop/no-op/replace moves, eps-loops growing or not) x all words up to length 3-4 x closure limits "
                "{1,2,3,5,8,20,50,1000}; oracle: exact saturation (balanced relation + unpopped pushes); sound always, complete when the reference's true "
                "closure sizes stay within the limit; non-trivial: a word accepted within the limit by a PDA with push and pop/replace moves"),
]
KNOWN_PREDICATES = {}
