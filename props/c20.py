"""C20 - the DFA isomorphism test decides isomorphism of the reachable parts."""
from hypothesis import strategies as st

from harness.engine import Clause, Fail, lib
from harness.budget import run_with_budget, BudgetExceeded
from ref import fa
from gen import fa as G
from bridge import fa as B

from gambatools import dfa_algorithms as DA

ASSUMPTIONS = [
    "both DFAs are valid, total and share one alphabet (the functions assert equal alphabets)",
    "termination is judged by a deterministic line-event budget (>= 100x the maximum observed on passing cases), not by wall clock",
]
BUDGET = 400000


def make_run(fname):
    def run(case):
        s1, s2 = case["d1"], case["d2"]
        A1, A2 = fa.rdfa(s1), fa.rdfa(s2)
        want = fa.iso_reachable(A1, A2)
        fn = getattr(DA, fname)
        events = 0
        res = {}
        for tag, (x, y) in (("12", (s1, s2)), ("21", (s2, s1))):
            D1 = B.mk_dfa(x)
            D2 = D1 if case.get("same_object") else B.mk_dfa(y)
            try:
                got, ev = lib(run_with_budget, fn, D1, D2, max_events=BUDGET)
            except BudgetExceeded as e:
                raise Fail("no_termination", "%s did not return within %d line events (in %s)" % (fname, BUDGET, e.frame_info))
            events = max(events, ev)
            if not isinstance(got, bool):
                raise Fail("type", "%s returned %r" % (fname, got))
            res[tag] = got
            if B.snap_dfa(D1) != B.canon(x) or B.snap_dfa(D2) != B.canon(y):
                raise Fail("mutates_argument", "%s changed an argument" % fname)
        if res["12"] != want:
            raise Fail("wrong_true" if res["12"] else "wrong_false", "%s(D1, D2) = %r but the reachable parts are %sisomorphic" % (fname, res["12"], "" if want else "not "))
        if res["21"] != want:
            raise Fail("asymmetric" if res["21"] != res["12"] else ("wrong_true" if res["21"] else "wrong_false"),
                       "%s(D2, D1) = %r, %s(D1, D2) = %r, oracle %r" % (fname, res["21"], fname, res["12"], want))
        r1, r2 = fa.reachable(A1), fa.reachable(A2)
        eq = fa.equiv(A1, A2) is None
        cls = [case["kind"], "isomorphic" if want else ("equivalent_not_isomorphic" if eq else "inequivalent")]
        if len(r1) < len(s1["Q"]) or len(r2) < len(s2["Q"]):
            cls.append("unreachable_states")
        return {"nt": len(r1) >= 2 and len(r2) >= 2, "cls": cls, "events": events, "out": {"answer": want}}
    return run


def rename(draw, spec, pool):
    new = draw(G.names(len(spec["Q"]), pool))
    m = dict(zip(spec["Q"], new))
    order = draw(st.permutations(list(range(len(new)))))
    return {"Q": [new[i] for i in order], "S": list(spec["S"]), "d": [[m[p], a, m[q]] for p, a, q in spec["d"]],
            "q0": m[spec["q0"]], "F": [m[q] for q in spec["F"]], "eps": None}


def add_unreachable(draw, spec, k):
    spec = dict(spec, Q=list(spec["Q"]), d=[list(t) for t in spec["d"]], F=list(spec["F"]))
    extra = [x for x in G.POOL if x not in spec["Q"]]
    for _ in range(k):
        new = extra.pop(0)
        spec["Q"].append(new)
        for a in spec["S"]:
            spec["d"].append([new, a, spec["Q"][draw(st.integers(0, len(spec["Q"]) - 1))]])
        if draw(st.booleans()):
            spec["F"].append(new)
    return spec


def split_state(draw, spec):
    """Split a state into two equivalent copies, the copy taking over some incoming edges: same language."""
    spec = dict(spec, Q=list(spec["Q"]), d=[list(t) for t in spec["d"]], F=list(spec["F"]))
    src = spec["Q"][draw(st.integers(0, len(spec["Q"]) - 1))]
    new = next(x for x in G.POOL if x not in spec["Q"])
    spec["Q"].append(new)
    spec["d"] += [[new, a, q] for p, a, q in spec["d"] if p == src]
    if src in spec["F"]:
        spec["F"].append(new)
    incoming = [t for t in spec["d"] if t[2] == src]
    if incoming:
        idx = draw(st.lists(st.integers(0, len(incoming) - 1), min_size=1, max_size=len(incoming), unique=True))
        for i in idx:
            incoming[i][2] = new
    return spec


def index_twins(draw):
    """Two DFAs with 12-14 reachable states over {a,b} whose breadth-first numbering (alphabet in sorted order) is the same and whose transition tables differ in
    one row only, the two rows being (1, 1x) and (11, x): written without a separator the successor numbers read the same (`110`, `111`, ...).  The DFAs are
    not isomorphic (the breadth-first numbering is canonical).  Any representation that concatenates state indices - or names - without a separator confuses them."""
    n = draw(st.integers(12, 14))
    base = draw(st.integers(0, 1))            # numbering from 0 or from 1
    rows = {}
    last_parent = (n - 2) // 2
    for i in range(n):
        for j, a in enumerate("ab"):
            child = 2 * i + 1 + j
            rows[i, a] = child if child < n else draw(st.integers(0, n - 1))
    x = draw(st.integers(0, n - 12))
    k = draw(st.integers(last_parent + 1, n - 1))
    r1, r2 = (1 - base, 10 + x - base), (11 - base, x - base)
    if r2[1] < 0:
        r1, r2 = (1, 10), (11, 0)
    F = [i for i in range(n) if draw(st.booleans())]
    def spec(row, prefix):
        t = dict(rows)
        t[k, "a"], t[k, "b"] = row
        items = [["%s%d" % (prefix, p), a, "%s%d" % (prefix, q)] for (p, a), q in t.items()]
        items = list(draw(st.permutations(items)))
        return {"Q": ["%s%d" % (prefix, i) for i in range(n)], "S": ["a", "b"], "d": items, "q0": "%s0" % prefix, "F": ["%s%d" % (prefix, i) for i in F], "eps": None}
    same = draw(st.integers(0, 3)) == 0
    return spec(r1, "u"), spec(r1 if same else r2, "w")


@st.composite
def cases(draw, tier):
    kind = draw(st.sampled_from(["renamed", "renamed_unreachable", "split", "mutated", "independent", "renamed", "split", "mutated", "same_object", "index_twins"]))
    if kind == "index_twins":
        d1, d2 = index_twins(draw)
        if draw(st.booleans()):
            d2 = rename(draw, d2, G.POOL)
        return {"kind": kind, "d1": d1, "d2": d2}
    if kind == "same_object":
        base = draw(G.inflated_dfa_specs(max_states=4, max_sigma=2))
        return {"kind": kind, "d1": base, "d2": base, "same_object": True}
    if draw(st.integers(0, 7)) == 0:
        # symbols of several characters whose characters are symbols themselves (a transition on 'ab' is not an a-step followed by a b-step)
        base = draw(G.dfa_specs(min_states=2, max_states=4, sigma=draw(st.sampled_from([["a", "ab", "b"], ["a", "aa"], ["ab", "b", "ba"]])), pool=G.POOL[:12]))
    else:
        base = draw(G.dfa_specs(min_states=1 if draw(st.integers(0, 7)) == 0 else 2, max_states=5, max_sigma=2, pool=G.POOL[:12]))
    pool2 = G.POOL if draw(st.booleans()) else G.POOL[:12]
    if kind == "independent":
        other = draw(G.dfa_specs(max_states=5, sigma=base["S"], pool=pool2))
        return {"kind": kind, "d1": base, "d2": other}
    other = rename(draw, base, pool2)
    if kind == "renamed_unreachable":
        k1, k2 = draw(st.integers(0, 2)), draw(st.integers(0, 2))
        base = add_unreachable(draw, base, k1)
        other = add_unreachable(draw, other, k2)
    elif kind == "split":
        other = split_state(draw, other)
        if draw(st.booleans()):
            base, other = other, base
    elif kind == "mutated":
        other = dict(other, d=[list(t) for t in other["d"]], F=list(other["F"]))
        if other["d"] and draw(st.booleans()):
            t = other["d"][draw(st.integers(0, len(other["d"]) - 1))]
            t[2] = other["Q"][draw(st.integers(0, len(other["Q"]) - 1))]
        else:
            q = other["Q"][draw(st.integers(0, len(other["Q"]) - 1))]
            other["F"] = [x for x in other["F"] if x != q] if q in other["F"] else other["F"] + [q]
    if len(other["S"]) >= 2 and draw(st.booleans()):
        other = dict(other, S=list(draw(st.permutations(other["S"]))))      # equal alphabets built in a different insertion order
    return {"kind": kind, "d1": base, "d2": other}


def ex(tier):
    n = 2
    def gen():
        L = list(G.all_dfas(n, ["a"] if tier == "quick" else ["a", "b"]))
        for a in L:
            for b in L:
                b2 = {"Q": ["p" + q[1:] for q in b["Q"]], "S": b["S"], "d": [["p" + p[1:], x, "p" + q[1:]] for p, x, q in b["d"]],
                      "q0": "p0", "F": ["p" + q[1:] for q in b["F"]], "eps": None}
                yield {"kind": "exhaustive", "d1": a, "d2": b2}
    return ("all ordered pairs of DFAs with <= 2 states over %s" % ("{a}" if tier == "quick" else "{a,b}"), gen())


RULE = ("pairs: D vs renamed copy / with unreachable states added / with a state split into equivalent copies / with one mutation / independent; "
        "answer compared with forced BFS matching oracle in both argument orders, termination by line-event budget; "
        "non-trivial: both reachable parts have >= 2 states")
CLAUSES = [
    Clause("isomorphic1", cases, make_run("dfa_isomorphic1"), quick=1200, thorough=10000, exhaustive=ex, rule="dfa_isomorphic1: " + RULE),
    Clause("isomorphic", cases, make_run("dfa_isomorphic"), quick=1200, thorough=10000, exhaustive=ex, rule="dfa_isomorphic: " + RULE),
]


def chain_dfa(n, prefix, accept_last, width=1):
    """Counter chain over {a,b}: a moves on, b stays (width 1) or moves two on (width 2); the last state is a sink."""
    Q = ["%s%d" % (prefix, i) for i in range(n)]
    d = []
    for i in range(n):
        d.append([Q[i], "a", Q[min(i + 1, n - 1)]])
        d.append([Q[i], "b", Q[i] if width == 1 else Q[min(i + 2, n - 1)]])
    return {"Q": Q, "S": ["a", "b"], "d": d, "q0": Q[0], "F": [Q[n - 1]] if accept_last else [Q[n // 2]], "eps": None}


def make_run_large(fname):
    inner = make_run(fname)

    def run(case):
        global BUDGET
        old = BUDGET
        n = max(len(case["d1"]["Q"]), len(case["d2"]["Q"]))
        BUDGET = 40000000 + 15 * n * n          # dfa_isomorphic needs about 5 n^2 line events on these chains (measured: 7.2e6 at 1200, 3.1e7 at 2500 states)
        try:
            r = inner(case)
        finally:
            BUDGET = old
        return {"nt": True, "cls": [case["kind"], "isomorphic" if r["out"]["answer"] else "not_isomorphic"], "events": r.get("events", 0), "out": r["out"]}
    return run


def ex_large(tier):
    sizes = [1200, 1500] if tier == "quick" else [1200, 1500, 2500, 4000]

    def gen():
        for n in sizes:
            yield {"kind": "large_renamed", "d1": chain_dfa(n, "q", True), "d2": chain_dfa(n, "r", True)}
            yield {"kind": "large_differs_at_the_end", "d1": chain_dfa(n, "q", True), "d2": chain_dfa(n, "r", False)}
            yield {"kind": "large_differs_in_size", "d1": chain_dfa(n, "q", True, 2), "d2": chain_dfa(n + 1, "r", True, 2)}
    return ("counter chains of %r states: renamed copy, acceptance differing only in the last states, sizes differing by one" % sizes, gen())


CLAUSES += [
    Clause("large_isomorphic1", None, make_run_large("dfa_isomorphic1"), quick=0, thorough=0, exhaustive=ex_large, watchdog=300,
           rule="dfa_isomorphic1 on pairs of DFAs with 1200-4000 reachable states whose only difference (if any) is found after more than a thousand matched pairs; same oracle, both argument orders"),
    Clause("large_isomorphic", None, make_run_large("dfa_isomorphic"), quick=0, thorough=0, exhaustive=ex_large, watchdog=300,
           rule="dfa_isomorphic on the same large pairs"),
]
from props import workbench as WB   # noqa: E402

CLAUSES.append(Clause("object_history", lambda tier: WB.fa_programs(tier, "iso"), WB.run_fa, quick=500, thorough=5000,
                      rule="(both isomorphism tests on pairs of DFA objects with a history: compared, modified in place, compared again) " + WB.FA_RULE))
KNOWN_PREDICATES = {}

# coverage-guided second driver (atheris / libFuzzer through Hypothesis' fuzz_one_input) for the core clauses: (clause, quick runs, thorough runs)
from harness.covfuzz import cov_clauses  # noqa: E402
CLAUSES += cov_clauses('C20', CLAUSES, [('isomorphic', 2000, 13333), ('isomorphic1', 2000, 13333)])
