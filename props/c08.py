"""C08 - Chomsky conversion yields an equivalent CNF grammar, phase by phase."""
from hypothesis import strategies as st

from harness.engine import Clause, Fail, lib, lib_verbose
from ref import cfg as RC
from gen import cfg as GC
from bridge import cfg as BC

from gambatools import cfg_algorithms as CA
from gambatools.cfg import CFG
from gambatools.notebook_chomsky import cfg_apply_chomsky

ASSUMPTIONS = [
    "terminals are lower-case letters; variables upper-case letters or identifiers such as A0, S', q1'q2",
    "languages are compared on all words up to length L (4 for two terminals, 6 for one) with the reference on both sides (CFG equivalence is undecidable)",
    "freshness is observed as: no existing variable gains rules in the phases that only introduce helper variables (a name clash would add the helper's rules to it); "
    "dropping variables is not forbidden by the property and not reported (a dropped variable that still occurs in a rule makes the grammar invalid, which is)",
]


def bound(spec):
    return 4 if len(spec["T"]) >= 2 else 6


def check_result(G2, spec, what, lang_before, L):
    if not isinstance(G2, CFG):
        raise Fail("type", "%s returned %r" % (what, type(G2)))
    snap = BC.snap_cfg(G2)
    err = RC.valid(snap) or BC.typed_ok(G2)
    if err:
        raise Fail("invalid_grammar", "%s: %s" % (what, err))
    if set(snap["T"]) != set(spec["T"]):
        raise Fail("terminals_changed", "%s: terminal alphabet %r -> %r" % (what, spec["T"], snap["T"]))
    after = RC.lang_upto(snap, L)
    if after != lang_before:
        extra, missing = sorted(after - lang_before, key=len), sorted(lang_before - after, key=len)
        raise Fail("language", "%s changes the language: extra %r, missing %r" % (what, extra[:3], missing[:3]))
    return snap


def post_no_eps(snap):
    for A, rhs in snap["R"]:
        if not rhs and A != snap["S"]:
            return "eps-rule %s -> eps for a non-start variable" % A
    return None


def post_no_unit(snap):
    V = set(snap["V"])
    for A, rhs in snap["R"]:
        if len(rhs) == 1 and rhs[0] in V:
            return "unit rule %s -> %s" % (A, rhs[0])
    return None


def post_len2(snap):
    for A, rhs in snap["R"]:
        if len(rhs) > 2:
            return "rule %s -> %s has more than two symbols" % (A, "".join(rhs))
    return None


def post_terminals(snap):
    V = set(snap["V"])
    for A, rhs in snap["R"]:
        if len(rhs) >= 2 and any(x not in V for x in rhs):
            return "terminal inside the long rule %s -> %s" % (A, " ".join(rhs))
    return None


def post_new_start(snap, spec):
    S = snap["S"]
    if S in spec["V"]:
        return "start variable %s is not new" % S
    if len(set(snap["V"]) - set(spec["V"])) != 1:
        return "expected exactly one new variable, got %r" % sorted(set(snap["V"]) - set(spec["V"]))
    for A, rhs in snap["R"]:
        if S in rhs:
            return "new start variable occurs on a right-hand side"
    return None


def old_rule_counts(spec_or_snap, old):
    c = {A: 0 for A in old}
    for A, rhs in spec_or_snap["R"]:
        if A in c:
            c[A] += 1
    return c


def classes(spec):
    V = set(spec["V"])
    cls = set()
    for A, rhs in spec["R"]:
        if not rhs:
            cls.add("eps_rule")
        elif len(rhs) == 1 and rhs[0] in V:
            cls.add("unit_rule")
        elif len(rhs) > 2:
            cls.add("long_rule")
        if len(rhs) >= 2 and any(x not in V for x in rhs):
            cls.add("terminal_in_long_rule")
    seen = {}
    for A, rhs in spec["R"]:
        seen.setdefault(tuple(rhs), set()).add(A)
    if any(len(v) > 1 and len(k) >= 1 for k, v in seen.items()):
        cls.add("shared_rhs")
    if len(spec["V"]) >= 24:
        cls.add("many_variables")
    if any(t.upper() in spec["T"] and t.upper() != t for t in spec["T"]):
        cls.add("letter_in_both_cases")
    return cls


def nt_of(cls):
    return "eps_rule" in cls and ("unit_rule" in cls or "long_rule" in cls)


def run_full(case):
    spec = case["cfg"]
    G = BC.mk_cfg(spec)
    before = BC.canon(spec)
    L = bound(spec)
    lang = RC.lang_upto(spec, L)
    G2 = lib_verbose(CA.cfg_to_chomsky, G) if case.get("verbose") else lib(CA.cfg_to_chomsky, G)
    snap = check_result(G2, spec, "cfg_to_chomsky", lang, L)
    err = RC.is_cnf(snap)
    if err:
        raise Fail("not_cnf", "cfg_to_chomsky: %s" % err)
    if BC.snap_cfg(G) != before:
        raise Fail("mutates_argument", "cfg_to_chomsky changed its argument")
    cls = classes(spec)
    return {"nt": nt_of(cls) and len(lang) >= 1, "cls": sorted(cls), "out": {"rules": len(snap["R"]), "variables": len(snap["V"]), "words": len(lang)}}


PHASES = {
    1: ("cfg_add_new_start_variable", lambda G, hint: CA.cfg_add_new_start_variable(G, hint)),
    2: ("cfg_remove_epsilon_rules", lambda G, hint: CA.cfg_remove_epsilon_rules(G)),
    3: ("cfg_eliminate_unit_rules", lambda G, hint: CA.cfg_eliminate_unit_rules(G)),
    4: ("cfg_make_rules_of_length_two", lambda G, hint: CA.cfg_make_rules_of_length_two(G)),
    5: ("cfg_eliminate_terminals", lambda G, hint: CA.cfg_eliminate_terminals(G)),
}


def run_phase(case):
    spec, k, hint = case["cfg"], case["phase"], case["hint"]
    G = BC.mk_cfg(spec)
    before = BC.canon(spec)
    L = bound(spec)
    lang = RC.lang_upto(spec, L)
    name, fn = PHASES[k]
    G2 = lib(fn, G, hint)
    snap = check_result(G2, spec, name, lang, L)
    err = {1: lambda: post_new_start(snap, spec), 2: lambda: post_no_eps(snap), 3: lambda: post_no_unit(snap),
           4: lambda: post_len2(snap), 5: lambda: post_terminals(snap)}[k]()
    if err:
        raise Fail("postcondition_%d" % k, "%s: %s" % (name, err))
    if k in (1, 4, 5):
        after, before_counts = old_rule_counts(snap, spec["V"]), old_rule_counts(spec, spec["V"])
        gained = [A for A in spec["V"] if after[A] > before_counts[A]]
        if gained:
            raise Fail("fresh_variable_clash", "%s: the existing variables %r gained rules, so an introduced variable is not distinct from them" % (name, gained))
    if k in (2, 3) and not set(snap["V"]) <= set(spec["V"]):
        raise Fail("variables_added", "%s introduced variables %r" % (name, sorted(set(snap["V"]) - set(spec["V"]))))
    if BC.snap_cfg(G) != before:
        raise Fail("mutates_argument", "%s changed its argument" % name)
    # the result is the caller's object: the later phases are applied to it in place (as the library's own pipeline does with intermediate results);
    # the original argument must stay untouched then as well
    from gambatools import cfg_algorithms as CA
    for later in (CA.cfg_make_rules_of_length_two_in_place, CA.cfg_eliminate_terminals_in_place):
        try:
            later(G2)
        except Exception:
            break
    if BC.snap_cfg(G) != before:
        raise Fail("argument_shares_parts_with_result", "%s: modifying the *result* in place (rules of length two, terminals) changed the argument: the result is not an independent grammar" % name)
    cls = classes(spec)
    relevant = {1: True, 2: "eps_rule" in cls, 3: "unit_rule" in cls, 4: "long_rule" in cls, 5: "terminal_in_long_rule" in cls}[k]
    cls.add("phase_%d" % k)
    if hint in spec["V"]:
        cls.add("hint_taken")
    return {"nt": relevant and len(lang) >= 1 and len(spec["V"]) >= 2, "cls": sorted(cls), "out": {"rules": len(snap["R"])}}


def run_pipeline(case):
    spec, k, hint = case["cfg"], case["phase"], case["hint"]
    G = BC.mk_cfg(spec)
    before = BC.canon(spec)
    L = bound(spec)
    lang = RC.lang_upto(spec, L)
    G2 = lib(cfg_apply_chomsky, G, k, hint)
    snap = check_result(G2, spec, "cfg_apply_chomsky(phase=%d)" % k, lang, L)
    errs = [post_new_start(snap, spec) if k == 1 else (None if snap["S"] not in spec["V"] else "start variable %s is not new" % snap["S"])]
    if k >= 2:
        errs.append(post_no_eps(snap))
    if k >= 3:
        errs.append(post_no_unit(snap))
    if k >= 4:
        errs.append(post_len2(snap))
    if k >= 5:
        errs.append(RC.is_cnf(snap))
    for e in errs:
        if e:
            raise Fail("pipeline_postcondition_%d" % k, "after phases 1..%d: %s" % (k, e))
    if BC.snap_cfg(G) != before:
        raise Fail("mutates_argument", "cfg_apply_chomsky changed its argument")
    cls = classes(spec)
    cls.add("upto_phase_%d" % k)
    return {"nt": nt_of(cls) and len(lang) >= 1, "cls": sorted(cls), "out": {"rules": len(snap["R"])}}


@st.composite
def base_specs(draw, tier):
    kind = draw(st.integers(0, 9))
    # mostly letters; sometimes digits or punctuation (terminals whose upper-case form is the terminal itself; pda_to_cfg produces such grammars)
    terms = draw(st.sampled_from([("a", "b"), ("a", "b"), ("a", "b"), ("a",), ("0", "1"), ("a", "+"), ("(", ")")]))
    if kind == 0 and draw(st.booleans()):
        return draw(GC.numbered_cfg_specs(terms=terms))
    if kind == 0:
        # many variables: reach the len(V) >= 26 branch of the fresh-variable helper
        n = draw(st.integers(23, 28))
        core = draw(GC.cfg_specs(max_vars=3, terms=terms, simple=True, max_len=4))
        extra = [v for v in GC.UPPER + ["A0", "B0", "A1"] if v not in core["V"]][: n - len(core["V"])]
        R = list(core["R"])
        for v in extra:
            if draw(st.integers(0, 5)) == 0:
                R.append([v, [terms[0]]])
        return {"V": core["V"] + extra, "T": list(terms), "R": R, "S": core["S"]}
    if kind == 9:
        return draw(GC.unit_chain_specs(terms=terms))
    spec = draw(GC.cfg_specs(max_vars=4 if tier == "quick" else 5, terms=terms, simple=draw(st.integers(0, 3)) > 0, max_len=6 if draw(st.integers(0, 3)) == 0 else 4))
    if kind <= 2 and len(spec["V"]) >= 2:
        # rules sharing a right-hand side under several variables + a unit cycle
        A, B = spec["V"][0], spec["V"][1]
        rhs = draw(st.sampled_from([["a", A, "a"], ["a", "a", "a"], [B, "a", B, "a"], ["a", "a"]]))
        rhs = [terms[0] if x == "a" else x for x in rhs]
        spec["R"] += [[A, list(rhs)], [B, list(rhs)], [A, [B]], [B, [A]]]
        if draw(st.booleans()):
            spec["R"].append([B, []])
    return spec


def upper_terminal(draw, spec):
    """One time in ten a terminal becomes an upper-case letter that is not a variable of this grammar (but is one of other grammars handled by the same process)."""
    k = draw(st.integers(0, 9))
    if k == 1:
        # a letter in both cases (a and A are different terminals with the same upper-case form); some occurrences of the letter change case
        pairs = [t for t in spec["T"] if t.islower() and t.upper() not in spec["V"] and t.upper() not in spec["T"]]
        if pairs:
            t = pairs[draw(st.integers(0, len(pairs) - 1))]
            R = [[A, [t.upper() if x == t and x not in spec["V"] and draw(st.booleans()) else x for x in rhs]] for A, rhs in spec["R"]]
            return dict(spec, T=list(spec["T"]) + [t.upper()], R=R)
    if k or not spec["T"]:
        return spec
    free = [x for x in "XYZWV" if x not in spec["V"]]
    if not free:
        return spec
    old, new = spec["T"][0], free[draw(st.integers(0, len(free) - 1))]
    return dict(spec, T=[new if t == old else t for t in spec["T"]], R=[[A, [new if x == old and x not in spec["V"] else x for x in rhs]] for A, rhs in spec["R"]])


@st.composite
def full_cases(draw, tier):
    return {"cfg": upper_terminal(draw, draw(base_specs(tier))), "id_offset": draw(st.integers(0, 14)), "verbose": draw(st.integers(0, 5)) == 0}


@st.composite
def phase_cases(draw, tier):
    spec = upper_terminal(draw, draw(base_specs(tier)))
    hint = draw(st.sampled_from(["S", "S0", "Z", spec["V"][0], spec["V"][-1], "S'"]))
    return {"cfg": spec, "phase": draw(st.integers(1, 5)), "hint": hint, "id_offset": draw(st.integers(0, 14))}


CLAUSES = [
    Clause("to_chomsky", full_cases, run_full, quick=500, thorough=4000,
           rule="arbitrary grammars (eps rules, unit cycles, shared right-hand sides, 23-28 variables class, multi-character variable names); result valid, "
                "CNF (own predicate), same words up to length L, argument unchanged; non-trivial: an eps rule and (a unit rule or a long rule), non-empty language"),
    Clause("phase", phase_cases, run_phase, quick=700, thorough=6000,
           rule="each pure phase function on arbitrary grammars x start-variable hints (free or already taken): language kept, own postcondition, "
                "no existing variable gains rules, argument unchanged; non-trivial: the phase has something to do"),
    Clause("pipeline", phase_cases, run_pipeline, quick=600, thorough=5000,
           rule="cumulative phases 1..k exactly as notebook_chomsky.cfg_apply_chomsky: language kept, cumulative postconditions, argument unchanged"),
]
from props import workbench as WB   # noqa: E402

CLAUSES.append(Clause("object_history", WB.cfg_programs, WB.run_cfg, quick=300, thorough=3000, rule="(conversion phases applied to grammar objects with a history) " + WB.CFG_RULE))
KNOWN_PREDICATES = {}

# coverage-guided second driver (atheris / libFuzzer through Hypothesis' fuzz_one_input) for the core clauses: (clause, quick runs, thorough runs)
from harness.covfuzz import cov_clauses  # noqa: E402
CLAUSES += cov_clauses('C08', CLAUSES, [('phase', 2000, 13333), ('to_chomsky', 1500, 10000)])
