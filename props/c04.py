"""C04 - minimisation returns an equivalent DFA with no two equivalent states."""
from hypothesis import strategies as st

from harness.engine import Clause, Fail, lib
from ref import fa
from gen import fa as G
from bridge import fa as B

from gambatools.dfa import DFA
from gambatools import dfa_algorithms as DA

ASSUMPTIONS = [
    "valid total DFAs; state names \\w+; single-character symbols",
    "the three results need not be isomorphic to each other; only each within the stated bounds",
]

FUNCS = {"minimize": "dfa_minimize", "quotient": "dfa_quotient", "hopcroft": "dfa_hopfcroft"}


def make_run(which):
    fname = FUNCS[which]

    def run(case):
        spec = case["dfa"]
        D = B.mk_dfa(spec)
        before = B.canon(spec)
        M = lib(getattr(DA, fname), D)
        if not isinstance(M, DFA):
            raise Fail("type", "%s returned %r" % (fname, type(M)))
        snap = B.snap_dfa(M)
        err = fa.valid_dfa_snapshot(snap)
        if err:
            raise Fail("invalid_dfa", err)
        if sorted(snap["S"]) != sorted(spec["S"]):
            raise Fail("alphabet", "result alphabet %r, input alphabet %r" % (snap["S"], spec["S"]))
        A = fa.rdfa(spec)
        R = fa.rdfa(snap)
        w = fa.equiv(A, R)
        if w is not None:
            raise Fail("language", "input and result differ on word %r" % w, word=w)
        nres = len(snap["Q"])
        k = fa.n_classes(R)
        if k != nres:
            cl = fa.moore_classes(R)
            groups = {}
            for q, c in cl.items():
                groups.setdefault(c, []).append(q)
            dup = next(sorted(g) for g in groups.values() if len(g) > 1)
            raise Fail("equivalent_states", "result states %r are equivalent (result has %d states, %d classes)" % (dup, nres, k))
        lo = fa.n_classes(A, fa.reachable(A))
        hi = fa.n_classes(A)
        if not (lo <= nres <= hi):
            raise Fail("state_count", "result has %d states; Myhill-Nerode classes of reachable input states: %d, of all input states: %d" % (nres, lo, hi))
        if B.snap_dfa(D) != before:
            raise Fail("mutates_argument", "the input DFA was changed")
        cls = []
        n = len(spec["Q"])
        if hi < n:
            cls.append("merge_required")
        if len(fa.reachable(A)) < n:
            cls.append("unreachable_states")
        if not spec["F"]:
            cls.append("F_empty")
        if len(spec["F"]) == n:
            cls.append("F_all")
        if n == 1:
            cls.append("one_state")
        if not spec["S"]:
            cls.append("empty_alphabet")
        return {"nt": n >= 2 and (hi < n or len(fa.reachable(A)) < n), "cls": cls, "out": {"input_states": n, "result_states": nres, "lo": lo, "hi": hi}}

    return run


SETLIKE = ["{q0}", "{q1}", "{q0,q1}", "{}", "{q2}", "{q1,q2}", "{q0,q2}", "{q0,q1,q2}", "{{q0},{q1}}", "{{q0,q1}}", "q0", "q1", "{q0,q1},{q2}", "{q0},{q1,q2}"]


@st.composite
def cases(draw, tier):
    k = draw(st.integers(0, 5))
    if k == 0:
        return {"dfa": draw(G.dfa_specs(max_states=6))}
    if k == 2 and draw(st.booleans()):
        return {"dfa": draw(G.routes_dfa_specs())}
    if k == 3 and draw(st.booleans()):
        # state names that look like sets of other names (the output of the subset construction is minimised in the notebooks): classes of such states
        # get names built from names that are themselves set-like
        return {"dfa": draw(G.inflated_dfa_specs(max_states=4, max_sigma=2, pool=SETLIKE))}
    if k == 1:
        # larger automata: refinement orders with waiting blocks of three or more states need at least six states
        return {"dfa": draw(G.dfa_specs(min_states=6, max_states=9 if tier == "quick" else 11, sigma=draw(st.sampled_from([["a", "b"], ["a", "b"], ["a"], ["a", "b", "c"]]))))}
    return {"dfa": draw(G.inflated_dfa_specs(max_states=4 if tier == "quick" else 5, max_sigma=2))}


def ex(tier):
    n = 3
    sig = ["a"] if tier == "quick" else ["a", "b"]
    return ("all DFAs with <= %d states over %r" % (n, sig), ({"dfa": s} for s in G.all_dfas(n, sig)))


RULE = ("random DFAs and 'inflated' DFAs (states split into equivalent copies, unreachable states added, state order permuted); "
        "result: valid, exactly equivalent, pairwise distinguishable (own Moore refinement), state count within "
        "[classes of reachable states, classes of all states], input unchanged; non-trivial: a merge is required or unreachable states exist")

CLAUSES = [
    Clause("minimize", cases, make_run("minimize"), quick=800, thorough=8000, exhaustive=ex, rule="dfa_minimize (table filling): " + RULE),
    Clause("quotient", cases, make_run("quotient"), quick=800, thorough=8000, exhaustive=ex, rule="dfa_quotient: " + RULE),
    Clause("hopcroft", cases, make_run("hopcroft"), quick=800, thorough=8000, exhaustive=ex, rule="dfa_hopfcroft: " + RULE),
]


def run_large(case):
    out = {}
    for which in FUNCS:
        out[which] = make_run(which)(case)["out"]["result_states"]
    return {"nt": True, "cls": [case["family"]], "out": out}


def ex_large(tier):
    ks = [12, 13] if tier == "quick" else [10, 11, 12, 13, 14, 16]
    ks1 = [9] if tier == "quick" else [7, 12]

    def gen():
        for k in ks:
            yield {"dfa": G.pair_universal_dfa2(k), "family": "accepting_base_states"}
        for k in ks1:
            yield {"dfa": G.pair_universal_dfa(k), "family": "counting_base_states"}
    return ("pair-universal DFAs: k pairwise distinguishable base states and one state per ordered pair of them (k in %r: 300-530 states; counting variant k in %r)" % (ks, ks1), gen())


CLAUSES.append(Clause("large", None, run_large, quick=0, thorough=0, exhaustive=ex_large, watchdog=300,
                      rule="all three minimisers on structured large DFAs (130-530 states, almost minimal): k pairwise distinguishable base states, a state for every ordered pair "
                           "of base states (a -> i-th, b -> j-th base state) that differs from the other pair states only in the classes of its successors, "
                           "a spine making every state reachable; same predicates as for the random DFAs; every case is large by construction"))
from props import workbench as WB   # noqa: E402

CLAUSES.append(Clause("object_history", lambda tier: WB.fa_programs(tier, "minimize"), WB.run_fa, quick=500, thorough=5000,
                      rule="(the three minimisers on DFA objects with a history: queried, minimised, modified in place or by assigning new values to their fields, minimised again) " + WB.FA_RULE))
KNOWN_PREDICATES = {}

# coverage-guided second driver (atheris / libFuzzer through Hypothesis' fuzz_one_input) for the core clauses: (clause, quick runs, thorough runs)
from harness.covfuzz import cov_clauses  # noqa: E402
CLAUSES += cov_clauses('C04', CLAUSES, [('minimize', 2000, 13333), ('quotient', 2000, 13333), ('hopcroft', 2000, 13333)])
