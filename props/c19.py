"""C19 - pure operations keep operands intact, independent of call history, hash order and logging."""
import contextlib
import io

from hypothesis import strategies as st

from harness.engine import Clause, Fail, lib
from ref import fa, regex as RX, cfg as RC, pda as RP, text as RT
from gen import fa as G, pda as GP, tm as GT, cfg as GC, regex as GR, text as GX, answers as GA
from bridge import fa as B, pda as BP, tm as BT, cfg as BC, regex as BR

from gambatools.global_settings import GambaTools
from gambatools.dfa import DFA
from gambatools.nfa import NFA
from gambatools.pda import PDA
from gambatools.tm import TM
from gambatools.cfg import CFG
from gambatools.regexp import Regexp
from gambatools import dfa_algorithms as DA, nfa_algorithms as NA, pda_algorithms as PA, tm_algorithms as TA, cfg_algorithms as CA, regexp_algorithms as RA
from gambatools import regexp as RM, language_generator as LG, language_algorithms as LA
from gambatools import notebook as NB, notebook_dfa as ND, notebook_nfa2dfa as NN, notebook_chomsky as NCH
from gambatools.identifier_generator import IdentifierGenerator

ASSUMPTIONS = [
    "observable content of an automaton = its sets and its set of transition tuples (empty entries that reading a defaultdict inserts are invisible); "
    "of a grammar = V, Sigma, S and the rule list; of an expression = its tree",
    "result signatures: exact value for acceptance tests, enumerators, DFA/TM traces and checker verdicts; exact language (canonical minimal DFA) for regular results; "
    "words up to length 3 for PDA/CFG results; 'returned a run / None' for NFA and PDA traces (any valid run is allowed to differ)",
    "PDA arguments are closure-complete within the limit 60 (the truncated closure legitimately depends on the pop order; README)",
    "NFA constructions are called with a fresh explicit identifier generator: their default generator is history dependent by design of its signature "
    "(C18 covers the language of the results under histories)",
]
PDA_LIMIT = 60
KINDS = {"dfa": (B.mk_dfa, B.snap_dfa), "nfa": (B.mk_nfa, B.snap_nfa), "pda": (BP.mk_pda, BP.snap_pda), "tm": (BT.mk_tm, BT.snap_tm),
         "cfg": (BC.mk_cfg, BC.snap_cfg), "cnf": (BC.mk_cfg, BC.snap_cfg), "re": (BR.mk, BR.snap),
         "wordset": (lambda a: set(a), lambda o: sorted(o))}


def canon_of(kind, spec):
    if kind in ("dfa", "nfa"):
        return B.canon(spec)
    if kind == "pda":
        return BP.canon(spec)
    if kind == "tm":
        return BT.canon(spec)
    if kind in ("cfg", "cnf"):
        return BC.canon(spec)
    if kind == "wordset":
        return sorted(spec)
    return spec


def verdict(fn, *args):
    buf = io.StringIO()
    with contextlib.redirect_stdout(buf):
        fn(*args)
    lines = [l for l in buf.getvalue().split("\n") if l.strip()]
    return "OK" if lines and lines[0].strip() == "OK" else "not OK"


def sig(x):
    """Result signature (JSON-able)."""
    if isinstance(x, (bool, int, str)) or x is None:
        return x
    if isinstance(x, DFA):
        return ["lang", fa.canonical_min(fa.rdfa(B.snap_dfa(x)))]
    if isinstance(x, NFA):
        s = B.snap_nfa(x)
        return ["lang", fa.canonical_min(fa.determinise(s, alphabet=sorted(s["S"])))]
    if isinstance(x, Regexp):
        t = BR.snap(x)
        # the language only (the shape and size of an extracted expression legitimately depend on the elimination order); alphabet = argument-independent superset
        S = ["0", "1", "a", "b", "c"]
        return ["lang", fa.canonical_min(RX.to_dfa(t, S) if RX.size(t) <= 150 else RX.to_dfa2(t, S))]
    if isinstance(x, PDA):
        return ["words", sorted(RP.lang_upto(BP.snap_pda(x), 3))]
    if isinstance(x, CFG):
        return ["words", sorted(RC.lang_upto(RC.reduce(BC.snap_cfg(x)), 3))]
    if isinstance(x, (set, frozenset)):
        return ["set", sorted(sig(e) if not isinstance(e, str) else e for e in x)]
    if isinstance(x, dict):
        return ["map", sorted([repr(k), sig(v)] for k, v in x.items() if v)]
    if isinstance(x, (list, tuple)):
        return [sig(e) for e in x]
    return repr(x)


def parse_cfg_checked(t):
    """The language of the parsed grammar is a function of the text alone: it is compared with the language of the grammar that was written (reference
    semantics), so that a parser that remembers something from earlier texts is noticed at the first call already."""
    got = sig(CA.parse_simple_cfg(t["text"]))
    want = ["words", sorted(RC.lang_upto(RC.reduce(t["spec"]), 3))]
    if got != want:
        raise Fail("history_dependent:parse_simple_cfg", "parse_simple_cfg(%r) gives a grammar with the words %r up to length 3, the written grammar has %r "
                   "(the answer for this text depends on what was parsed before, or the parser is wrong)" % (t["text"], got[1][:6], want[1][:6]))
    return got


def text_sig(t):
    return sorted(" ".join(sorted(l.split()[2:])) + "|" + " ".join(l.split()[:2]) for l in t.strip().split("\n"))


def run_or_none(x):
    return "no run" if x is None else "run"


def fresh_gen():
    return IdentifierGenerator(50)


# registry: name -> (argument kinds, callable(objects..., extra) -> signature)
REG = {
    "dfa_accepts_word": (["dfa", "w"], lambda D, w: sig(DA.dfa_accepts_word(D, w))),
    "dfa_simulate_word": (["dfa", "w"], lambda D, w: sig(DA.dfa_simulate_word(D, w))),
    "dfa_accepts_all_short_words": (["dfa"], lambda D: [DA.dfa_accepts_word(D, w) for w in G.all_words(sorted(D.Sigma), 3)]),
    "nfa_accepts_all_short_words": (["nfa"], lambda N: [NA.nfa_accepts_word(N, w) for w in G.all_words(sorted(N.Sigma), 4 if len(N.Sigma) < 3 else 3)]),
    "nfa_simulates_all_short_words": (["nfa"], lambda N: [run_or_none(NA.nfa_simulate_word(N, w)) for w in G.all_words(sorted(N.Sigma), 3)]),
    "regexp_accepts_all_short_words": (["re"], lambda r: [RA.regexp_accepts_word(r, w) for w in G.all_words(["a", "b"], 4)]),
    "pda_accepts_all_short_words": (["pda"], lambda P: [PA.pda_accepts_word(P, w) for w in G.all_words(sorted(P.Sigma), 3)]),
    # the generic generator on a language given as a set of words (the caller's set is an operand), and language comparison on languages of 2000 words
    "generate_language_wordset": (["wordset", "n"], lambda L, n: sig(LG.generate_language(L, n))),
    "check_equal_languages_wordset": (["wordset", "dfa"], lambda L, D: [LG.check_equal_languages(L, D, 1), LG.check_equal_languages(L, D, 4)]),
    "check_equal_languages_long": (["dfa"], lambda D: LG.check_equal_languages(D, DA.dfa_minimize(D), 10 if len(D.Sigma) <= 2 else 6)),
    "dfa_words_up_to_n": (["dfa", "n"], lambda D, n: sig(DA.dfa_words_up_to_n(D, n))),
    "dfa_minimize": (["dfa"], lambda D: sig(DA.dfa_minimize(D))),
    "dfa_quotient": (["dfa"], lambda D: sig(DA.dfa_quotient(D))),
    "dfa_hopfcroft": (["dfa"], lambda D: sig(DA.dfa_hopfcroft(D))),
    "dfa_minimize_size": (["dfa"], lambda D: [len(f(D).Q) for f in (DA.dfa_minimize, DA.dfa_quotient, DA.dfa_hopfcroft)]),
    "dfa_isomorphic": (["dfa", "dfa2"], lambda D, E: sig(DA.dfa_isomorphic(D, E))),
    "dfa_isomorphic1": (["dfa", "dfa2"], lambda D, E: sig(DA.dfa_isomorphic1(D, E))),
    "dfa_complement": (["dfa"], lambda D: sig(DA.dfa_complement(D))),
    "dfa_union": (["dfa", "dfa2"], lambda D, E: sig(DA.dfa_union(D, E))),
    "dfa_intersection": (["dfa", "dfa2"], lambda D, E: sig(DA.dfa_intersection(D, E))),
    "dfa_symmetric_difference": (["dfa", "dfa2"], lambda D, E: sig(DA.dfa_symmetric_difference(D, E))),
    "dfa_reverse": (["dfa"], lambda D: sig(DA.dfa_reverse(D))),
    "dfa_no_prefix": (["dfa"], lambda D: sig(DA.dfa_no_prefix(D))),
    "dfa_no_extend": (["dfa"], lambda D: sig(DA.dfa_no_extend(D))),
    "dfa_remove_unreachable_states": (["dfa"], lambda D: sig(DA.dfa_remove_unreachable_states(D))),
    "dfa_make_total": (["dfa"], lambda D: sig(DA.dfa_make_total(D))),
    "dfa_to_regexp": (["dfa"], lambda D: sig(RA.dfa_to_regexp(D))),
    "print_dfa": (["dfa"], lambda D: text_sig(DA.print_dfa(D))),
    "generate_language_dfa": (["dfa", "n"], lambda D, n: sig(LG.generate_language(D, n))),
    "nfa_accepts_word": (["nfa", "w"], lambda N, w: sig(NA.nfa_accepts_word(N, w))),
    "nfa_words_up_to_n": (["nfa", "n"], lambda N, n: sig(NA.nfa_words_up_to_n(N, n))),
    "nfa_simulate_word": (["nfa", "w"], lambda N, w: run_or_none(NA.nfa_simulate_word(N, w))),
    "nfa_to_dfa": (["nfa"], lambda N: sig(NA.nfa_to_dfa(N))),
    "epsilon_closure": (["nfa"], lambda N: sig({q: NA.epsilon_closure(N, q) for q in N.Q})),
    "nfa_repetition": (["nfa"], lambda N: sig(NA.nfa_repetition(N, fresh_gen()))),
    "nfa_union": (["nfa", "nfa2"], lambda N, M: sig(NA.nfa_union(N, M, fresh_gen()))),
    "nfa_concatenation": (["nfa", "nfa2"], lambda N, M: sig(NA.nfa_concatenation(N, M))),
    "print_nfa": (["nfa"], lambda N: text_sig(NA.print_nfa(N))),
    "regexp_accepts_word": (["re", "w"], lambda r, w: sig(RA.regexp_accepts_word(r, w))),
    "regexp_words_up_to_n": (["re", "n"], lambda r, n: sig(RA.regexp_words_up_to_n(r, n))),
    "regexp_simplify": (["re"], lambda r: sig(RA.regexp_simplify(r))),
    "regexp_to_nfa": (["re"], lambda r: sig(RA.regexp_to_nfa(r))),
    "print_regexp": (["re"], lambda r: [RM.print_regexp(r), RM.print_regexp_simple(r), str(r)]),
    "cfg_accepts_word": (["cfg", "w"], lambda Gr, w: sig(CA.cfg_accepts_word(Gr, w))),
    "cfg_words_up_to_n": (["cfg", "n"], lambda Gr, n: sig(CA.cfg_words_up_to_n(Gr, min(n, 3)))),
    "cfg_to_chomsky": (["cfg"], lambda Gr: sig(CA.cfg_to_chomsky(Gr))),
    "cfg_add_new_start_variable": (["cfg"], lambda Gr: sig(CA.cfg_add_new_start_variable(Gr, "S"))),
    "cfg_remove_epsilon_rules": (["cfg"], lambda Gr: sig(CA.cfg_remove_epsilon_rules(Gr))),
    "cfg_eliminate_unit_rules": (["cfg"], lambda Gr: sig(CA.cfg_eliminate_unit_rules(Gr))),
    "cfg_make_rules_of_length_two": (["cfg"], lambda Gr: sig(CA.cfg_make_rules_of_length_two(Gr))),
    "cfg_eliminate_terminals": (["cfg"], lambda Gr: sig(CA.cfg_eliminate_terminals(Gr))),
    "cfg_remove_inproductive_variables": (["cfg"], lambda Gr: sig(CA.cfg_remove_inproductive_variables(Gr))),
    "cfg_remove_useless_rules": (["cfg"], lambda Gr: sig(CA.cfg_remove_useless_rules(Gr))),
    "cfg_apply_chomsky": (["cfg", "n"], lambda Gr, n: sig(NCH.cfg_apply_chomsky(Gr, 1 + n % 5, "T"))),
    "cfg_cyk_matrix": (["cnf", "w1"], lambda Gr, w: sig(dict(CA.cfg_cyk_matrix(Gr, w)))),
    "cfg_derive_word": (["cnf", "wl"], lambda Gr, w: sig([[str(x) for x in f] for f in CA.cfg_derive_word(Gr, w, "leftmost")]) if w is not None else None),
    "pda_accepts_word": (["pda", "w"], lambda P, w: sig(PA.pda_accepts_word(P, w))),
    "pda_words_up_to_n": (["pda", "n"], lambda P, n: sig(PA.pda_words_up_to_n(P, min(n, 3)))),
    "pda_simulate_word": (["pda", "w"], lambda P, w: run_or_none(PA.pda_simulate_word(P, w))),
    "pda_to_push_pop": (["pda"], lambda P: sig(PA.pda_to_push_pop(P))),
    "pda_to_accept_on_empty_stack": (["pda"], lambda P: sig(PA.pda_to_accept_on_empty_stack(P))),
    "pda_to_cfg": (["pda_small"], lambda P: sig(PA.pda_to_cfg(P))),
    "pda_is_push_pop": (["pda"], lambda P: sig(PA.pda_is_push_pop(P))),
    "print_pda": (["pda"], lambda P: text_sig(PA.print_pda(P))),
    "tm_accepts_word": (["tm", "w"], lambda T, w: sig(TA.tm_accepts_word(T, w, 60))),
    "tm_simulate_word": (["tm", "w"], lambda T, w: sig(TA.tm_simulate_word(T, w, 25))),
    "tm_words_up_to_n": (["tm", "n"], lambda T, n: sig(TA.tm_words_up_to_n(T, min(n, 3), 60))),
    "print_tm": (["tm"], lambda T: text_sig(TA.print_tm(T))),
    "parse_simple_cfg": (["cfg_text"], lambda t: parse_cfg_checked(t)),
    "check_cfg_language_from_words": (["cfg_text", "wordset"], lambda t, ws: verdict(NB.check_cfg_language_from_words, t["text"], " ".join(sorted(w or "ε" for w in ws)), 3)),
    "check_cfg_accepts_rejects": (["cfg_text", "wordset"], lambda t, ws: verdict(NB.check_cfg_accepts_rejects, t["text"], " ".join(sorted(w or "ε" for w in ws)[:2]), "")),
    "check_dfa_minimal": (["dfa", "dfa2"], lambda D, E: verdict(ND.check_dfa_minimal, DA.print_dfa(D), DA.print_dfa(E), 4)),
    "check_dfa_language_from_words": (["dfa", "dfa2"], lambda D, E: verdict(NB.check_dfa_language_from_words, DA.print_dfa(D), " ".join(sorted(w or "ε" for w in DA.dfa_words_up_to_n(E, 3))), 3, 0)),
    "check_nfa2dfa": (["nfa_text"], lambda N: verdict(NN.check_nfa2dfa, NA.print_nfa(N), DA.print_dfa(NA.nfa_to_dfa(N)))),
    "check_dfa_union": (["dfa", "dfa2"], lambda D, E: verdict(ND.check_dfa_union, DA.print_dfa(DA.dfa_union(D, E)), DA.print_dfa(D), DA.print_dfa(E), 4)),
}
NAMES = sorted(REG)


def build_args(case):
    """Fresh library objects + the canonical content of every object argument."""
    kinds = REG[case["op"]][0]
    objs, canons = [], []
    for k in kinds:
        a = case["args"][k]
        if k in ("w", "n", "w1", "wl", "cfg_text"):
            objs.append(a)
            canons.append(None)
        else:
            base = {"dfa2": "dfa", "nfa2": "nfa", "pda_small": "pda", "nfa_text": "nfa"}.get(k, k)
            objs.append(KINDS[base][0](a))
            canons.append((base, canon_of(base, a)))
    return objs, canons


def settings_witness(op, before, after):
    """An operation left the global closure limit changed.  Show a later call whose answer differs because of it: a PDA that pushes n symbols and drains
    them by eps-pops needs a closure of about n configurations for a^n b."""
    lo, hi = sorted([before, after])
    n = lo + 5 if hi > lo + 8 else None
    spec = {"Q": ["d0", "d1", "d2", "d3"], "S": ["a", "b"], "G": ["$", "X"],
            "d": [["d0", "ε", "ε", "d1", "$"], ["d1", "a", "ε", "d1", "X"], ["d1", "b", "ε", "d2", "ε"], ["d2", "ε", "X", "d2", "ε"], ["d2", "ε", "$", "d3", "ε"]],
            "q0": "d0", "F": ["d3"], "eps": "ε"}
    if n is not None and n <= 1200:
        P = KINDS["pda"][0](spec)
        w = "a" * n + "b"
        got_after = PA.pda_accepts_word(P, w)
        GambaTools.pda_epsilon_closure_max_iterations = before
        got_before = PA.pda_accepts_word(P, w)
        if got_after != got_before:
            raise Fail("history_dependent:global_limit:" + op, "%s leaves GambaTools.pda_epsilon_closure_max_iterations = %d (it was %d); afterwards pda_accepts_word(a^%d b) "
                       "on an unrelated PDA answers %r instead of %r" % (op, after, before, n, got_after, got_before))
    raise Fail("global_setting_changed:" + op, "%s leaves GambaTools.pda_epsilon_closure_max_iterations = %d (it was %d)" % (op, after, before))


def call(case):
    from harness.libstate import set_identifier_generators
    set_identifier_generators(case.get("id_offset", 0))
    objs, canons = build_args(case)
    old = GambaTools.pda_epsilon_closure_max_iterations
    limit = case.get("limit", PDA_LIMIT)
    log = GambaTools.enable_logging
    GambaTools.pda_epsilon_closure_max_iterations = limit
    try:
        result = lib(REG[case["op"]][1], *objs)
        left = GambaTools.pda_epsilon_closure_max_iterations
        if left != limit:
            settings_witness(case["op"], limit, left)
        if GambaTools.enable_logging != log:
            raise Fail("global_setting_changed:" + case["op"], "%s leaves GambaTools.enable_logging = %r (it was %r): later calls print other output" % (case["op"], GambaTools.enable_logging, log))
    finally:
        GambaTools.pda_epsilon_closure_max_iterations = old
        GambaTools.enable_logging = log
    for o, c in zip(objs, canons):
        if c is not None:
            base, want = c
            now = KINDS[base][1](o)
            if now != want:
                diff = [k for k in want if now.get(k) != want[k]] if isinstance(want, dict) else ["tree"]
                raise Fail("argument_changed:" + case["op"], "%s changed the observable content of its %s argument (fields %s)" % (case["op"], base, diff))
    return result


def nontrivial(case):
    for k, a in case["args"].items():
        if isinstance(a, dict) and ("Q" in a and len(a["Q"]) >= 2 or "V" in a and len(a["V"]) >= 2):
            return True
        if isinstance(a, list) and len(a) >= 3:
            return True
    return False


def run_args_intact(case):
    s = call(case)
    return {"nt": nontrivial(case), "cls": [case["op"]], "out": {"sig": str(s)[:80]}}


def run_hashseed(case):
    s = call(case)
    return {"nt": nontrivial(case) and s not in (None, False, ["set", []], ["words", []]), "cls": [case["op"]], "sig": s, "out": {"sig": str(s)[:80]}}


def run_logging(case):
    old = GambaTools.enable_logging
    try:
        GambaTools.enable_logging = False
        s0 = call(case)
        GambaTools.enable_logging = True
        buf = io.StringIO()
        with contextlib.redirect_stdout(buf):
            s1 = call(case)
    finally:
        GambaTools.enable_logging = old
    if s0 != s1:
        raise Fail("logging_dependent:" + case["op"], "%s gives %r without and %r with logging" % (case["op"], str(s0)[:100], str(s1)[:100]))
    return {"nt": nontrivial(case), "cls": [case["op"], "log_output" if buf.getvalue() else "silent"], "out": {}}


IN_PLACE = {
    "dfa": [DA.dfa_make_total_in_place],
    "cfg": [CA.cfg_to_chomsky_in_place, CA.cfg_remove_epsilon_rules_in_place, CA.cfg_eliminate_unit_rules_in_place, CA.cfg_add_new_start_variable_in_place,
            CA.cfg_make_rules_of_length_two_in_place, CA.cfg_eliminate_terminals_in_place],
    "pda": [PA.pda_to_push_pop_in_place, PA.pda_to_one_accepting_state_in_place, PA.pda_to_accept_on_empty_stack_in_place],
}


def run_history(case):
    """Program: list of steps; a 'probe' step records (op,args)->signature at its first execution and must reproduce it at every later repetition."""
    seen = {}
    nprobe = 0
    old_log, old_lim = GambaTools.enable_logging, GambaTools.pda_epsilon_closure_max_iterations
    try:
        for k, step in enumerate(case["steps"]):
            kind = step["step"]
            if kind == "probe":
                c = case["probes"][step["i"] % len(case["probes"])]
                key = step["i"] % len(case["probes"])
                buf = io.StringIO()
                with contextlib.redirect_stdout(buf):
                    s = call(c)
                if key in seen and seen[key] != s:
                    raise Fail("history_dependent:" + c["op"], "%s on equal arguments gives %r at step %d but gave %r earlier in the same process" % (c["op"], str(s)[:100], k, str(seen[key])[:100]))
                if key in seen:
                    nprobe += 1
                seen[key] = s
            elif kind == "in_place":
                c = case["probes"][step["i"] % len(case["probes"])]
                for name, a in c["args"].items():
                    base = {"dfa2": "dfa", "pda_small": "pda", "cnf": "cfg"}.get(name, name)
                    if base in IN_PLACE and isinstance(a, dict):
                        obj = KINDS[base][0](a)                      # a private copy built from the spec
                        fns = IN_PLACE[base]
                        try:
                            fns[step["j"] % len(fns)](obj)
                        except Exception:
                            pass
            elif kind == "logging":
                GambaTools.enable_logging = not GambaTools.enable_logging
            elif kind == "limit":
                GambaTools.pda_epsilon_closure_max_iterations = step["value"]
    finally:
        GambaTools.enable_logging, GambaTools.pda_epsilon_closure_max_iterations = old_log, old_lim
    return {"nt": nprobe >= 1 and len(case["steps"]) >= 3, "cls": sorted({c["op"] for c in case["probes"]}), "out": {"repeated_probes": nprobe}}


PURE_COPYING = {
    "cfg": ["cfg_to_chomsky", "cfg_add_new_start_variable", "cfg_remove_epsilon_rules", "cfg_eliminate_unit_rules", "cfg_make_rules_of_length_two", "cfg_eliminate_terminals",
            "cfg_remove_inproductive_variables", "cfg_remove_useless_rules"],
    "pda": ["pda_to_push_pop", "pda_to_accept_on_empty_stack"],
}


def run_result_independent(case):
    """The non-in_place grammar and PDA functions are 'deep copy + in_place' by construction, so the result shares nothing with the argument: modifying the result in
    place (as the library's own pipelines do with intermediate results) must leave the argument untouched - 'after any other library calls' in the property."""
    kind, name, spec = case["kind"], case["op"], case["spec"]
    base = "cfg" if kind == "cfg" else "pda"
    obj = KINDS[base][0](spec)
    want = canon_of(base, spec)
    fn = getattr(CA if base == "cfg" else PA, name)
    res = lib(fn, obj, "S") if name == "cfg_add_new_start_variable" else lib(fn, obj)
    for j in case["then"]:
        fns = IN_PLACE[base]
        try:
            fns[j % len(fns)](res)
        except Exception:
            pass              # preconditions of the in-place step on the *result* are not the subject here
    now = KINDS[base][1](obj)
    if now != want:
        diff = [k for k in want if now.get(k) != want[k]]
        raise Fail("argument_changed_later:" + name, "the argument of %s changed (fields %s) when its result was modified in place afterwards: result and argument share mutable parts" % (name, diff))
    return {"nt": nontrivial({"args": {"x": spec}}), "cls": [name], "out": {}}


@st.composite
def result_independent_cases(draw, tier):
    kind = draw(st.sampled_from(["cfg", "cfg", "pda"]))
    if kind == "cfg":
        spec = draw(st.one_of(GC.cfg_specs(max_vars=4, terms=("a", "b"), max_len=4), GC.unit_chain_specs(max_len=4)))
    else:
        spec = draw(safe_pda())
    return {"kind": kind, "op": draw(st.sampled_from(PURE_COPYING[kind])), "spec": spec, "then": draw(st.lists(st.integers(0, 9), min_size=1, max_size=3))}


# ---------------- generators ----------------

def pda_safe(spec):
    return all(max(RP.closure_sizes(spec, w, PDA_LIMIT)) <= PDA_LIMIT for w in G.all_words(spec["S"], 3))


@st.composite
def safe_pda(draw, small=False):
    if not small and draw(st.integers(0, 5)) == 0:
        # stacks that spell the same text with different symbols ([XY] vs [X, Y]): configurations that must not be identified
        spec = draw(st.sampled_from([GP._ambiguous_stacks, GP._ambiguous_stacks2]))(draw(st.sampled_from(["ε", "", "_"])))
        new = draw(G.names(len(spec["Q"])))
        m = dict(zip(spec["Q"], new))
        return dict(spec, Q=new, d=[[m[p], a, u, m[q], v] for p, a, u, q, v in spec["d"]], q0=m[spec["q0"]], F=[m[q] for q in spec["F"]])
    for _ in range(3):
        spec = draw(GP.mixed_pda_specs(max_states=2 if small else 3, max_trans=4 if small else 6, max_gamma=2))
        if small and len(spec["Q"]) > 3:
            continue
        if pda_safe(spec):
            return spec
    return GP._anbn("ε") if not small else {"Q": ["q0"], "S": ["a"], "G": ["X"], "d": [["q0", "a", "ε", "q0", "X"]], "q0": "q0", "F": ["q0"], "eps": "ε"}


@st.composite
def op_cases(draw, tier, names=None):
    op = draw(st.sampled_from(names or NAMES))
    kinds = REG[op][0]
    args = {}
    sigma = draw(st.sampled_from([["a"], ["a", "b"]]))
    for k in kinds:
        if k == "dfa":
            args[k] = draw(st.one_of(G.dfa_specs(max_states=5, sigma=sigma), G.inflated_dfa_specs(max_states=3, max_sigma=2))) if "dfa2" not in kinds else draw(G.dfa_specs(max_states=4, sigma=sigma, pool=G.POOL[:8]))
        elif k == "dfa2":
            args[k] = draw(G.dfa_specs(max_states=3, sigma=sigma, pool=G.POOL[:8] if draw(st.booleans()) else G.POOL[8:16]))
        elif k == "nfa":
            if "nfa2" in kinds:
                args[k] = draw(G.nfa_specs(max_states=4, sigma=sigma, pool=G.POOL[:8]))
            elif draw(st.integers(0, 1)) == 0:
                args[k] = draw(G.ring_nfa_specs(sigma=sigma))          # eps-cycles entered at several states: closures computed in set-iteration order
            else:
                args[k] = draw(G.mixed_nfa_specs(max_states=4, sigma=sigma))
        elif k == "nfa_text":
            args[k] = draw(G.nfa_specs(max_states=3, sigma=sigma, eps_choices=["ε", "_"]))
        elif k == "nfa2":
            s2 = draw(G.nfa_specs(max_states=3, sigma=sigma, pool=G.POOL[8:16], eps_choices=[args["nfa"]["eps"]]))
            args[k] = s2
        elif k == "re":
            args[k] = draw(GR.trees(sigma, max_leaves=8))
        elif k == "cfg":
            args[k] = draw(GC.cfg_specs(max_vars=4, terms=tuple(sigma), simple=draw(st.booleans()), max_len=3))
        elif k == "cfg_text":
            # a grammar in the simple text format; the empty alternative is written with one of the two glyphs the format knows (or does not occur)
            g = draw(GC.cfg_specs(max_vars=3, terms=tuple(sigma), simple=True, max_len=3))
            # every variable has a rule (the format declares variables by their rules)
            have = {A for A, _ in g["R"]}
            g = dict(g, R=list(g["R"]) + [[A, [sigma[0]]] for A in g["V"] if A not in have])
            glyph = draw(st.sampled_from(["_", "ε"]))
            order = [g["S"]] + [v for v in g["V"] if v != g["S"]]
            lines = []
            for A in order:
                alts = ["".join(rhs) or glyph for B_, rhs in g["R"] if B_ == A]
                if alts:
                    lines.append("%s -> %s" % (A, " | ".join(alts)))
            args[k] = {"text": "\n".join(lines) or "%s -> %s" % (g["S"], glyph), "spec": g}
        elif k == "cnf":
            args[k] = draw(GC.cnf_specs(max_vars=4, terms=tuple(sigma), max_rules=8))
        elif k == "pda":
            args[k] = draw(safe_pda())
        elif k == "pda_small":
            args[k] = draw(safe_pda(small=True))
        if k in ("pda", "pda_small") and draw(st.integers(0, 2)) == 0:
            # state names M<i>, q_accept<i>: the names the conversions give to the states they add (counted from the generated offset of the case)
            sp = args[k]
            pre = draw(st.sampled_from(["M", "M", "q_accept", "q"]))
            start = draw(st.integers(0, 3))
            m = {q: "%s%d" % (pre, start + i) for i, q in enumerate(sp["Q"])}
            args[k] = dict(sp, Q=[m[q] for q in sp["Q"]], d=[[m[p], a, u, m[q], v] for p, a, u, q, v in sp["d"]], q0=m[sp["q0"]], F=[m[q] for q in sp["F"]])
        elif k == "tm":
            args[k] = draw(GT.tm_specs(max_states=4, sigma=sigma))
        elif k == "n":
            args[k] = draw(st.integers(0, 4))
        elif k == "wordset":
            args[k] = sorted(set(draw(st.lists(st.text(alphabet=sigma, max_size=5), max_size=8))))
    S = sigma
    for k in kinds:
        if k == "w":
            base = next((args[x] for x in ("dfa", "nfa", "pda", "tm") if x in args), None)
            alpha = (base["S"] if base is not None else (args["cfg"]["T"] if "cfg" in args else S)) or ["a"]
            args[k] = draw(st.text(alphabet=alpha, max_size=4)) if (base is None or base["S"]) else ""
        elif k == "w1":
            args[k] = draw(st.text(alphabet=args["cnf"]["T"], min_size=1, max_size=5))
        elif k == "wl":
            words = sorted(w for w in RC.lang_upto(args["cnf"], 4) if w)
            args[k] = words[draw(st.integers(0, len(words) - 1))] if words else None
    if "dfa" in args and "dfa2" in args and "S" in args["dfa"]:
        args["dfa2"]["S"] = list(args["dfa"]["S"])
    case = {"op": op, "args": args, "id_offset": draw(st.integers(0, 3))}
    if ("pda" in args or "pda_small" in args) and draw(st.booleans()):
        case["limit"] = 1000         # the default setting (the generated PDAs keep every closure on the queried words far below PDA_LIMIT)
    return case


@st.composite
def logging_cases(draw, tier):
    # half of the cases go to the operations that write log output at all (found by reading the source: the Hopcroft minimiser), with automata large
    # enough for their refinement loops to do something; the other half to the whole registry
    if draw(st.booleans()):
        op = draw(st.sampled_from(["dfa_hopfcroft", "dfa_minimize_size"]))
        sigma = draw(st.sampled_from([["a", "b"], ["a", "b", "c"]]))
        return {"op": op, "args": {"dfa": draw(G.dfa_specs(min_states=4, max_states=8, sigma=sigma))}, "id_offset": 0}
    return draw(op_cases(tier))


HASH_SENSITIVE = ["check_equal_languages_long", "check_equal_languages_long", "nfa_accepts_all_short_words", "nfa_accepts_all_short_words", "nfa_simulates_all_short_words", "pda_accepts_all_short_words", "dfa_minimize", "dfa_quotient", "dfa_hopfcroft", "dfa_minimize_size", "dfa_to_regexp", "dfa_isomorphic", "dfa_isomorphic1", "nfa_to_dfa", "nfa_simulate_word",
                  "nfa_words_up_to_n", "nfa_accepts_word", "cfg_to_chomsky", "cfg_eliminate_unit_rules", "cfg_words_up_to_n", "cfg_accepts_word", "cfg_cyk_matrix", "cfg_derive_word",
                  "pda_to_cfg", "pda_to_push_pop", "pda_accepts_word", "pda_words_up_to_n", "pda_simulate_word", "regexp_to_nfa", "dfa_union", "dfa_reverse", "dfa_no_extend",
                  "dfa_remove_unreachable_states", "check_dfa_minimal", "check_nfa2dfa", "check_dfa_union", "check_dfa_language_from_words", "cfg_apply_chomsky", "print_dfa",
                  "print_nfa", "print_pda", "epsilon_closure", "dfa_words_up_to_n", "regexp_words_up_to_n", "tm_words_up_to_n"]


# operations whose results have been seen to depend on set-iteration order in broken versions of the library get a larger share of the cases
HASH_FOCUS = ["nfa_accepts_all_short_words"] * 5 + ["nfa_simulates_all_short_words"] * 2 + ["pda_accepts_all_short_words"] * 3 + ["pda_words_up_to_n"] * 3 + \
             ["pda_to_push_pop"] * 4 + ["pda_to_cfg"] * 2 + ["nfa_to_dfa"] * 2 + ["dfa_to_regexp"] * 2


@st.composite
def hash_cases(draw, tier):
    return draw(op_cases(tier, HASH_SENSITIVE + HASH_FOCUS))


@st.composite
def history_cases(draw, tier):
    probes = [draw(op_cases(tier)) for _ in range(draw(st.integers(1, 3)))]
    steps = [{"step": "probe", "i": i} for i in range(len(probes))]
    for _ in range(draw(st.integers(2, 10))):
        k = draw(st.integers(0, 9))
        if k <= 4:
            steps.append({"step": "probe", "i": draw(st.integers(0, 5))})
        elif k <= 6:
            steps.append({"step": "in_place", "i": draw(st.integers(0, 5)), "j": draw(st.integers(0, 5))})
        elif k == 7:
            steps.append({"step": "logging"})
        else:
            steps.append({"step": "limit", "value": draw(st.sampled_from([60, 200, 1000]))})
    steps.append({"step": "probe", "i": draw(st.integers(0, 5))})
    return {"probes": probes, "steps": steps}


CLAUSES = [
    Clause("args_intact", op_cases, run_args_intact, quick=2500, thorough=20000,
           rule="registry of %d pure operations (conversions, minimisers, products, restrictions, normal forms without _in_place, acceptance tests, enumerators, simulators, "
                "printers, isomorphism tests, NFA constructions, checkers) x generated arguments; the canonical content of every object argument is compared before and after "
                "the call; non-trivial: an argument with >= 2 states / variables" % len(REG)),
    Clause("hashseed", hash_cases, run_hashseed, quick=4000, thorough=16000, crossproc=True,
           rule="the same generated cases (fixed Hypothesis seed) are evaluated in every worker process, each with a different PYTHONHASHSEED; the parent compares the result "
                "signatures case by case; non-trivial: non-empty result for an argument with >= 2 states / variables"),
    Clause("logging", logging_cases, run_logging, quick=800, thorough=6000,
           rule="every registry operation with GambaTools.enable_logging off and on (stdout swallowed): same signature, arguments intact"),
    Clause("result_independent", result_independent_cases, run_result_independent, quick=500, thorough=4000,
           rule="grammar and PDA functions without the in_place suffix x 1-3 in-place operations applied to their *result* afterwards: the argument's content must still be the "
                "original one (no shared mutable parts); non-trivial: an argument with >= 2 variables / states"),
    Clause("history", history_cases, run_history, quick=500, thorough=4000,
           rule="model-based programs: probes (operation, argument specs) interleaved with other probes, _in_place operations on private copies, logging toggles and closure-limit "
                "changes; a probe must reproduce its first signature whenever it is repeated on freshly rebuilt equal arguments; non-trivial: >= 3 steps with a repeated probe"),
]
KNOWN_PREDICATES = {}

# coverage-guided second driver (atheris / libFuzzer through Hypothesis' fuzz_one_input) for the core clauses: (clause, quick runs, thorough runs)
from harness.covfuzz import cov_clauses  # noqa: E402
CLAUSES += cov_clauses('C19', CLAUSES, [('args_intact', 3000, 20000)])
