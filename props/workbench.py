"""Model-based 'workbench' histories over live library objects.

The generated value is a program; an interpreter executes it step by step on real library objects and on a model
(plain specs + reference semantics) and compares after every step.  Unlike the other clauses, objects are *kept and
reused* between steps, queried repeatedly in generated order, passed on to pure constructions whose results join
the pool, and modified in place (by the library's own in-place operations or through their public fields), so
anything the library caches in or next to an object is exercised.

Aliasing rule: the library's pure constructions may share containers with their arguments (dfa_complement shares Q,
Sigma and delta).  That is not asserted anywhere (section 7 of DESIGN.md), so before an object is modified in place,
every other object of its lineage (objects it was derived from / that were derived from it) is dropped from the pool.
"""
import copy

from hypothesis import strategies as st

from harness.engine import Fail, lib
from ref import fa, pda as RP, cfg as RC
from gen import fa as G, pda as GP
from bridge import fa as B, pda as BP, cfg as BC

from gambatools.global_settings import GambaTools
from gambatools.dfa import DFA
from gambatools.nfa import NFA
from gambatools import dfa_algorithms as DA, nfa_algorithms as NA, pda_algorithms as PA


# ======================================================================================
# finite automata
# ======================================================================================

class Item(object):
    def __init__(self, obj, kind, spec, group):
        self.obj, self.kind, self.spec, self.group = obj, kind, spec, group


def fa_accepts(item, w):
    return lib(DA.dfa_accepts_word if item.kind == "dfa" else NA.nfa_accepts_word, item.obj, w)


DFA_DERIVE = {
    "complement": (DA.dfa_complement, lambda A: fa.complement(A)),
    "minimize": (DA.dfa_minimize, lambda A: A),
    "quotient": (DA.dfa_quotient, lambda A: A),
    "hopcroft": (DA.dfa_hopfcroft, lambda A: A),
    "remove_unreachable": (DA.dfa_remove_unreachable_states, lambda A: A),
    "make_total": (DA.dfa_make_total, lambda A: A),
    "no_extend": (DA.dfa_no_extend, lambda A: fa.no_extend(A)),
    "reverse": (DA.dfa_reverse, lambda A: fa.reverse(A)),
    "no_prefix": (DA.dfa_no_prefix, lambda A: fa.no_prefix(A)),
}


def model_rdfa(item):
    return fa.rdfa(item.spec) if item.kind == "dfa" else fa.determinise(item.spec, alphabet=sorted(item.spec["S"]))


def run_fa(case):
    pool = []
    groups = 0
    nqueries = nderived = nmut = 0
    cls = set()
    for k, step in enumerate(case["steps"]):
        op = step["op"]
        if op == "new":
            spec = step["spec"]
            kind = "dfa" if spec.get("eps") is None else "nfa"
            groups += 1
            pool.append(Item(B.mk_dfa(spec) if kind == "dfa" else B.mk_nfa(spec), kind, copy.deepcopy(B.canon(spec)), groups))
            continue
        if not pool:
            continue
        it = pool[step["i"] % len(pool)]
        if op == "query":
            for w in step["words"]:
                w = "".join(c for c in w if c in it.spec["S"])
                got = fa_accepts(it, w)
                want = fa.nfa_accepts(it.spec, w)
                if got is not want:
                    raise Fail("stale_answer_%s" % it.kind, "step %d: %s_accepts_word(%r) = %r on an object that was %s, but its current content %s the word; history: %s" %
                               (k, it.kind, w, got, "reused" if nqueries else "fresh", "accepts" if want else "rejects", [s["op"] + ":" + str(s.get("what", "")) for s in case["steps"][:k + 1]]))
                nqueries += 1
        elif op == "enumerate":
            from gambatools.language_generator import generate_language
            n = step["n"]
            S = sorted(it.spec["S"])
            want = {w for w in G.all_words(S, n) if fa.nfa_accepts(it.spec, w)}
            fns = [("generate_language", generate_language), ("%s_words_up_to_n" % it.kind, DA.dfa_words_up_to_n if it.kind == "dfa" else NA.nfa_words_up_to_n)]
            for name, fn in fns:
                got = lib(fn, it.obj, n)
                if got != want:
                    raise Fail("stale_enumeration_%s" % it.kind, "step %d: %s(n=%d) on an object with a history gives extra %r, missing %r w.r.t. the current content; history: %s" %
                               (k, name, n, sorted(set(got) - want, key=len)[:3], sorted(want - set(got), key=len)[:3], [s["op"] + ":" + str(s.get("what", "")) for s in case["steps"][:k + 1]]))
            nqueries += 1
            cls.add("enumerate")
        elif op == "to_regexp" and it.kind == "dfa" and len(it.spec["Q"]) <= 4:
            from ref import regex as RX
            from bridge import regex as BR
            from gambatools.regexp_algorithms import dfa_to_regexp
            t = BR.snap(lib(dfa_to_regexp, it.obj))
            S = sorted(it.spec["S"])
            w = fa.equiv(RX.to_dfa(t, S) if RX.size(t) <= 200 else RX.to_dfa2(t, S), fa.rdfa(it.spec))
            if w is not None:
                raise Fail("derive_language_to_regexp", "step %d: dfa_to_regexp on an object with history %s gives an expression that differs from the current DFA on %r" %
                           (k, [s["op"] + ":" + str(s.get("what", "")) for s in case["steps"][:k]], w))
            nderived += 1
            cls.add("derive_to_regexp")
        elif op == "iso":
            other = pool[step["j"] % len(pool)]
            if it.kind == "dfa" and other.kind == "dfa" and sorted(it.spec["S"]) == sorted(other.spec["S"]):
                want = fa.iso_reachable(fa.rdfa(it.spec), fa.rdfa(other.spec))
                for name in ("dfa_isomorphic", "dfa_isomorphic1"):
                    got = lib(getattr(DA, name), it.obj, other.obj)
                    if got is not want:
                        raise Fail("stale_answer_iso", "step %d: %s = %r on objects with a history, the reachable parts of their current contents are %sisomorphic; history: %s" %
                                   (k, name, got, "" if want else "not ", [s["op"] + ":" + str(s.get("what", "")) for s in case["steps"][:k + 1]]))
                nqueries += 1
                cls.add("iso")
        elif op == "derive":
            if it.kind == "dfa":
                name = step["what"] if step["what"] in DFA_DERIVE else "complement"
                fn, ref_op = DFA_DERIVE[name]
                res = lib(fn, it.obj)
            else:
                name, fn, ref_op = "nfa_to_dfa", NA.nfa_to_dfa, (lambda A: A)
                res = lib(fn, it.obj)
            if isinstance(res, DFA):
                snap, rkind = B.snap_dfa(res), "dfa"
                err = fa.valid_dfa_snapshot(snap)
                R = fa.rdfa(snap) if not err else None
            elif isinstance(res, NFA):
                snap, rkind = B.snap_nfa(res), "nfa"
                err = fa.valid_nfa_snapshot(snap)
                R = fa.determinise(snap, alphabet=sorted(snap["S"])) if not err else None
            else:
                raise Fail("derive_type", "step %d: %s returned %r" % (k, name, type(res)))
            if err:
                raise Fail("derive_invalid_" + name, "step %d: %s returned an invalid automaton: %s" % (k, name, err))
            want = ref_op(model_rdfa(it))
            w = fa.equiv(R, want) if R["S"] == want["S"] else ""
            if w is not None:
                raise Fail("derive_language_" + name, "step %d: %s on an object with history %s gives a result that differs from the expected language on %r" %
                           (k, name, [s["op"] + ":" + str(s.get("what", "")) for s in case["steps"][:k]], w))
            pool.append(Item(res, rkind, snap, it.group))
            nderived += 1
            cls.add("derive_" + name)
        elif op == "mutate":
            # drop every other object of the lineage (possible aliasing), then modify object and model alike
            pool[:] = [x for x in pool if x is it or x.group != it.group]
            spec, obj = it.spec, it.obj
            Q, S = spec["Q"], spec["S"]
            what = step["what"]
            p, q = Q[step["a"] % len(Q)], Q[step["b"] % len(Q)]
            if what == "flip_final":
                if p in spec["F"]:
                    spec["F"].remove(p)
                    obj.F.discard(p)
                else:
                    spec["F"].append(p)
                    obj.F.add(p)
            elif what == "redirect" and it.kind == "dfa" and S:
                a = S[step["c"] % len(S)]
                for t in spec["d"]:
                    if t[0] == p and t[1] == a:
                        t[2] = q
                obj.delta[p, a] = q
            elif what in ("redirect", "drop_transition") and it.kind == "nfa":
                # an existing transition gets another target (the number of entries and of targets stays the same) or is removed
                own = [t for t in spec["d"] if t[0] == p] or list(spec["d"])
                if not own:
                    continue
                t = own[step["c"] % len(own)]
                if what == "redirect" and [t[0], t[1], q] in spec["d"]:
                    continue
                obj.delta[t[0], t[1]].discard(t[2])
                if what == "redirect":
                    obj.delta[t[0], t[1]].add(q)
                    t[2] = q
                else:
                    spec["d"].remove(t)
            elif what == "add_transition" and it.kind == "nfa":
                labels = S + [spec["eps"]]
                a = labels[step["c"] % len(labels)]
                if [p, a, q] not in spec["d"]:
                    spec["d"].append([p, a, q])
                if step["c"] % 2 == 0:
                    # the library's own idiom for transition maps that supply missing entries (defaultdict): add to the entry, existing or not
                    try:
                        obj.delta[p, a].add(q)
                    except KeyError:
                        obj.delta[p, a] = {q}
                elif (p, a) in obj.delta:
                    obj.delta[p, a].add(q)
                else:
                    obj.delta[p, a] = {q}
            elif what == "set_initial":
                # the fields are public: a new value is assigned to the attribute (the library does the same to PDAs in its in_place functions)
                spec["q0"] = q
                obj.q0 = q
            elif what == "replace_final_set":
                newF = [x for x in Q if (x in spec["F"]) != (x in (p, q))]
                spec["F"] = newF
                obj.F = set(newF)
            elif what == "make_total_in_place" and it.kind == "dfa":
                lib(DA.dfa_make_total_in_place, obj)
                it.spec = B.snap_dfa(obj)
            else:
                continue
            nmut += 1
            cls.add("mutate_" + what)
    return {"nt": nqueries >= 2 and (nderived + nmut) >= 1, "cls": sorted(cls), "out": {"queries": nqueries, "derived": nderived, "mutations": nmut}}


@st.composite
def fa_programs(draw, tier, focus="accept"):
    sigma = draw(st.sampled_from([["a"], ["a", "b"], ["a", "b"]]))
    steps = []
    for j in range(draw(st.integers(1, 2))):
        if focus == "minimize":
            steps.append({"op": "new", "spec": draw(G.inflated_dfa_specs(max_states=4, max_sigma=2)) if draw(st.booleans()) else draw(G.dfa_specs(max_states=5, sigma=sigma))})
        elif focus in ("regexp", "iso"):
            spec = draw(G.dfa_specs(max_states=3 if focus == "regexp" else 4, sigma=sigma, pool=G.POOL[:12]))
            steps.append({"op": "new", "spec": spec})
            if focus == "iso" and draw(st.booleans()):
                m = {q: q + "_c" for q in spec["Q"]}
                steps.append({"op": "new", "spec": {"Q": [m[q] for q in spec["Q"]], "S": list(spec["S"]), "d": [[m[p], a, m[q]] for p, a, q in spec["d"]],
                                                    "q0": m[spec["q0"]], "F": [m[q] for q in spec["F"]], "eps": None}})
        elif draw(st.booleans()) and not (focus == "subset" and j == 0):
            steps.append({"op": "new", "spec": draw(G.dfa_specs(max_states=4, sigma=sigma))})
        else:
            steps.append({"op": "new", "spec": draw(G.nfa_specs(max_states=4, sigma=sigma, eps_choices=["", "ε"]))})
    words = st.lists(st.text(alphabet=sigma, max_size=5), min_size=1, max_size=4)
    derive_names = sorted(DFA_DERIVE)
    n = draw(st.integers(3, 8 if tier == "quick" else 14))
    for _ in range(n):
        k = draw(st.integers(0, 9))
        i = draw(st.integers(0, 5))
        if focus == "subset" and draw(st.integers(0, 2)) > 0:
            i = 0                                   # keep working on the first NFA: determinise, modify, determinise again
            if k in (7, 8):
                steps.append({"op": "mutate", "i": 0, "what": "add_transition", "a": draw(st.integers(0, 5)), "b": draw(st.integers(0, 5)),
                              "c": len(sigma) if draw(st.booleans()) else draw(st.integers(0, 3))})      # index len(sigma) is the eps label
                continue
        if focus == "enumerate" and k <= 4:
            steps.append({"op": "enumerate", "i": i, "n": draw(st.sampled_from([2, 3, 2, 1, 0]))})
        elif k <= 3:
            steps.append({"op": "query", "i": i, "words": draw(words)})
        elif focus == "regexp" and k <= 5:
            steps.append({"op": "to_regexp", "i": i})
        elif focus == "iso" and k <= 5:
            steps.append({"op": "iso", "i": i, "j": draw(st.integers(0, 5))})
        elif k <= 6:
            choice = derive_names if focus == "accept" else (["minimize", "quotient", "hopcroft"] if focus == "minimize" else ["complement", "remove_unreachable", "reverse", "minimize"])
            steps.append({"op": "derive", "i": i, "what": draw(st.sampled_from(choice))})
        elif k <= 8:
            steps.append({"op": "mutate", "i": i, "what": draw(st.sampled_from(["flip_final", "redirect", "redirect", "add_transition", "add_transition", "drop_transition", "make_total_in_place", "set_initial", "replace_final_set"])),
                          "a": draw(st.integers(0, 5)), "b": draw(st.integers(0, 5)), "c": draw(st.integers(0, 3))})
        else:
            steps.append({"op": "new", "spec": draw(G.dfa_specs(max_states=3, sigma=sigma))})
    steps.append({"op": "query", "i": draw(st.integers(0, 5)), "words": draw(words)})
    if focus == "enumerate":
        steps.append({"op": "enumerate", "i": draw(st.integers(0, 5)), "n": draw(st.sampled_from([2, 3]))})
    if focus == "regexp":
        steps.append({"op": "to_regexp", "i": draw(st.integers(0, 5))})
    if focus == "iso":
        steps.append({"op": "iso", "i": draw(st.integers(0, 5)), "j": draw(st.integers(0, 5))})
    return {"steps": steps}


FA_RULE = ("model-based object histories: DFAs/NFAs are created, queried repeatedly (acceptance vs. run existence on the model), passed to pure constructions whose results are "
           "checked (exact language) and join the pool, and modified in place (final flags, transitions, dfa_make_total_in_place) together with the model; objects that may alias a "
           "modified object are dropped; non-trivial: >= 2 queries and >= 1 construction or modification")


# ======================================================================================
# pushdown automata
# ======================================================================================

PDA_LIMIT = 60


def pda_safe(spec, L):
    return all(max(RP.closure_sizes(spec, w, PDA_LIMIT)) <= PDA_LIMIT for w in G.all_words(spec["S"], L))


def run_pda(case):
    spec = copy.deepcopy(BP.canon(case["pda"]))
    L = 3
    if not pda_safe(spec, L):
        return {"nt": False, "cls": ["beyond_closure_limit_skipped"]}
    P = BP.mk_pda(spec)
    old = GambaTools.pda_epsilon_closure_max_iterations
    GambaTools.pda_epsilon_closure_max_iterations = PDA_LIMIT
    nq = nmod = 0
    cls = set()
    hist = []
    try:
        for k, step in enumerate(case["steps"]):
            op = step["op"]
            # stated preconditions of the constructions (explicit assert / documented TODO in the library): the dummy symbol of the push/pop
            # conversion must not be a stack symbol yet, and a fresh bottom marker must still be available
            if "∅" in spec["G"] and op in ("push_pop_in_place", "to_push_pop", "to_cfg"):
                continue
            if sum(1 for g in spec["G"] if g in "$@#*&!?") >= 4 and op in ("empty_stack_in_place", "to_empty_stack", "to_cfg"):
                continue
            hist.append(op)
            if op == "query":
                for w in step["words"]:
                    w = "".join(c for c in w if c in spec["S"])[:L]
                    got = lib(PA.pda_accepts_word, P, w)
                    want = RP.accepts(spec, w)
                    if got is not want:
                        raise Fail("stale_answer_pda", "step %d: pda_accepts_word(%r) = %r but the current content of the object %s it; history: %s" % (k, w, got, "accepts" if want else "rejects", hist))
                    nq += 1
            elif op == "simulate":
                for w in step["words"]:
                    w = "".join(c for c in w if c in spec["S"])[:L]
                    rows = lib(PA.pda_simulate_word, P, w)
                    want = RP.accepts(spec, w)
                    if rows is None:
                        if want:
                            raise Fail("stale_simulation_pda", "step %d: pda_simulate_word(%r) returns None although the current content accepts it; history: %s" % (k, w, hist))
                        continue
                    if not want:
                        raise Fail("stale_simulation_pda", "step %d: pda_simulate_word(%r) returns a run although the current content rejects it; history: %s" % (k, w, hist))
                    err = RP.check_run(spec, [(r[0], r[1], list(r[2])) for r in rows], w)
                    if err:
                        raise Fail("stale_simulation_pda", "step %d: pda_simulate_word(%r): %s (validated against the current content); history: %s" % (k, w, err, hist))
                    nq += 1
            elif op == "is_push_pop":
                got = lib(PA.pda_is_push_pop, P)
                eps = spec["eps"]
                want = all((u == eps) != (v == eps) for _, _, u, _, v in spec["d"])
                if got is not want:
                    raise Fail("stale_is_push_pop", "step %d: pda_is_push_pop = %r, own predicate on the current content: %r; history: %s" % (k, got, want, hist))
            elif op in ("one_accepting_in_place", "push_pop_in_place", "empty_stack_in_place"):
                fn = {"one_accepting_in_place": PA.pda_to_one_accepting_state_in_place, "push_pop_in_place": PA.pda_to_push_pop_in_place,
                      "empty_stack_in_place": PA.pda_to_accept_on_empty_stack_in_place}[op]
                before = RP.lang_upto(spec, L)
                lib(fn, P)
                new = BP.snap_pda(P)
                err = RP.valid(new)
                if err:
                    raise Fail("in_place_invalid", "step %d: %s leaves an invalid PDA: %s" % (k, op, err))
                if not pda_safe(new, L):
                    return {"nt": False, "cls": ["beyond_closure_limit_skipped"]}
                if RP.lang_upto(new, L) != before:
                    raise Fail("in_place_language", "step %d: %s changed the language; history: %s" % (k, op, hist))
                spec = new
                nmod += 1
                cls.add(op)
            elif op == "edit":
                Q = spec["Q"]
                what = step["what"]
                if what == "flip_final":
                    q = Q[step["a"] % len(Q)]
                    if q in spec["F"]:
                        spec["F"].remove(q)
                        P.F.discard(q)
                    else:
                        spec["F"].append(q)
                        P.F.add(q)
                elif what == "drop_transition" and spec["d"]:
                    t = spec["d"].pop(step["a"] % len(spec["d"]))
                    P.delta[t[0], t[1], t[2]].discard((t[3], t[4]))
                elif what == "add_transition":
                    eps = spec["eps"]
                    p, q = Q[step["a"] % len(Q)], Q[step["b"] % len(Q)]
                    a = (spec["S"] + [eps])[step["c"] % (len(spec["S"]) + 1)]
                    g = spec["G"][step["a"] % len(spec["G"])] if spec["G"] else eps
                    u, v = [(eps, g), (g, eps), (eps, eps)][step["b"] % 3]
                    t = [p, a, u, q, v]
                    if t not in spec["d"]:
                        spec["d"].append(t)
                        P.delta[p, a, u].add((q, v))
                    if not pda_safe(spec, L):
                        return {"nt": False, "cls": ["beyond_closure_limit_skipped"]}
                nmod += 1
                cls.add("edit_" + what)
            elif op in ("to_cfg", "to_push_pop", "to_empty_stack"):
                want = RP.lang_upto(spec, L)
                if op == "to_cfg":
                    if len(spec["Q"]) > 3:
                        continue
                    Gr = lib(PA.pda_to_cfg, P)
                    got = RC.lang_upto(RC.reduce(BC.snap_cfg(Gr)), L)
                else:
                    res = lib(PA.pda_to_push_pop if op == "to_push_pop" else PA.pda_to_accept_on_empty_stack, P)
                    got = RP.lang_upto(BP.snap_pda(res), L)
                if got != want:
                    raise Fail("derive_language_" + op, "step %d: %s on an object with history %s: result-only %r, PDA-only %r" % (k, op, hist, sorted(got - want, key=len)[:3], sorted(want - got, key=len)[:3]))
                if BP.snap_pda(P) != BP.canon(spec):
                    raise Fail("derive_mutates_" + op, "step %d: %s changed the PDA it was applied to" % (k, op))
                cls.add(op)
                nmod += 1
    finally:
        GambaTools.pda_epsilon_closure_max_iterations = old
    return {"nt": nq >= 2 and nmod >= 1, "cls": sorted(cls), "out": {"queries": nq, "other_steps": nmod}}


@st.composite
def pda_programs(draw, tier, focus="accept"):
    spec = draw(st.one_of(GP.pda_specs(max_states=2, max_trans=4, max_gamma=2, sigma=["a", "b"]), GP.structured_pda_specs(max_noise=1), GP.pda_specs(max_states=3, max_trans=5, max_gamma=2)))
    if not spec["F"]:
        spec["F"] = [spec["Q"][-1]]
    if draw(st.booleans()) and len(spec["Q"]) >= 2 and len(spec["F"]) == 1:
        spec["F"] = list(dict.fromkeys(spec["F"] + [spec["Q"][0]]))      # two accepting states
    words = st.lists(st.text(alphabet=spec["S"] or ["a"], max_size=3), min_size=1, max_size=4)
    steps = [{"op": "query", "words": draw(words)}]
    ops = ["query", "query", "is_push_pop", "one_accepting_in_place", "push_pop_in_place", "empty_stack_in_place", "edit", "edit", "to_cfg", "to_push_pop", "to_empty_stack"]
    if focus == "convert":
        ops += ["is_push_pop", "to_cfg", "to_cfg", "to_push_pop"]
    if focus == "simulate":
        ops += ["simulate", "simulate", "simulate", "edit"]
    for _ in range(draw(st.integers(2, 6 if tier == "quick" else 10))):
        op = draw(st.sampled_from(ops))
        st_ = {"op": op}
        if op in ("query", "simulate"):
            st_["words"] = draw(words)
        if op == "edit":
            st_.update(what=draw(st.sampled_from(["flip_final", "drop_transition", "add_transition"])), a=draw(st.integers(0, 7)), b=draw(st.integers(0, 7)), c=draw(st.integers(0, 3)))
        steps.append(st_)
    steps.append({"op": "query", "words": draw(words)})
    if focus == "simulate":
        steps.insert(1, {"op": "simulate", "words": draw(words)})
        steps.append({"op": "simulate", "words": draw(words)})
    return {"pda": spec, "steps": steps}


PDA_RULE = ("model-based object histories on one PDA object (closure-complete within limit 60): repeated acceptance queries (vs. exact saturation on the model), pda_is_push_pop, "
            "in-place normal forms, direct edits of F and delta, and pure conversions (pda_to_cfg, pda_to_push_pop, pda_to_accept_on_empty_stack) whose results are compared on all "
            "words up to length 3; non-trivial: >= 2 queries and >= 1 other step")


# ======================================================================================
# context-free grammars
# ======================================================================================

from gambatools import cfg_algorithms as CA   # noqa: E402
from gen import cfg as GC                     # noqa: E402

CFG_IN_PLACE = {
    "add_new_start": lambda Gr, hint: CA.cfg_add_new_start_variable_in_place(Gr, hint),
    "remove_epsilon": lambda Gr, hint: CA.cfg_remove_epsilon_rules_in_place(Gr),
    "eliminate_unit": lambda Gr, hint: CA.cfg_eliminate_unit_rules_in_place(Gr),
    "length_two": lambda Gr, hint: CA.cfg_make_rules_of_length_two_in_place(Gr),
    "eliminate_terminals": lambda Gr, hint: CA.cfg_eliminate_terminals_in_place(Gr),
    "to_chomsky": lambda Gr, hint: CA.cfg_to_chomsky_in_place(Gr),
    "remove_useless_rules": lambda Gr, hint: CA.cfg_remove_useless_rules_in_place(Gr),
}


def run_cfg(case):
    spec = copy.deepcopy(BC.canon(case["cfg"]))
    Gr = BC.mk_cfg(spec)
    L = 4 if len(spec["T"]) == 1 else 3
    nq = nmod = 0
    cls = set()
    hist = []
    for k, step in enumerate(case["steps"]):
        op = step["op"]
        hist.append(op + ":" + str(step.get("what", "")))
        if op == "query":
            for w in step["words"]:
                w = "".join(c for c in w if c in spec["T"])[:L + 1]
                got = lib(CA.cfg_accepts_word, Gr, w)
                want = RC.accepts(spec, w)
                if got is not want:
                    raise Fail("stale_answer_cfg", "step %d: cfg_accepts_word(%r) = %r but the current content of the grammar object %s it; history: %s" %
                               (k, w, got, "derives" if want else "does not derive", hist))
                nq += 1
        elif op == "enumerate":
            n = step["n"]
            got = lib(CA.cfg_words_up_to_n, Gr, n)
            want = RC.lang_upto(spec, n)
            if got != want:
                raise Fail("stale_enumeration_cfg", "step %d: cfg_words_up_to_n(n=%d): extra %r, missing %r; history: %s" % (k, n, sorted(got - want, key=len)[:3], sorted(want - got, key=len)[:3], hist))
            nq += 1
        elif op == "in_place":
            if len(spec["V"]) > 12:
                continue
            before = RC.lang_upto(spec, L)
            lib(CFG_IN_PLACE[step["what"]], Gr, step.get("hint", "S"))
            new = BC.snap_cfg(Gr)
            err = RC.valid(new) or BC.typed_ok(Gr)
            if err:
                raise Fail("in_place_invalid_cfg", "step %d: cfg_%s_in_place leaves an invalid grammar: %s; history: %s" % (k, step["what"], err, hist))
            if RC.lang_upto(new, L) != before:
                raise Fail("in_place_language_cfg", "step %d: %s changed the language; history: %s" % (k, step["what"], hist))
            spec = new
            nmod += 1
            cls.add("in_place_" + step["what"])
        elif op == "edit":
            V, T = spec["V"], spec["T"]
            what = step["what"]
            from gambatools.cfg import Rule, Alternative, Variable, Terminal
            if what == "add_rule":
                A = V[step["a"] % len(V)]
                rhs = [(V + T)[x % (len(V) + len(T))] for x in step["rhs"]]
                spec["R"].append([A, rhs])
                Gr.R.append(Rule(Variable(A), Alternative([Variable(x) if x in V else Terminal(x) for x in rhs])))
            elif what == "drop_rule" and len(spec["R"]) > 1:
                i = step["a"] % len(spec["R"])
                del spec["R"][i]
                del Gr.R[i]
            elif what == "change_start":
                A = V[step["a"] % len(V)]
                spec["S"] = A
                Gr.S = Variable(A)
            else:
                continue
            nmod += 1
            cls.add("edit_" + what)
        elif op == "to_chomsky":
            if len(spec["V"]) > 12:
                continue
            res = lib(CA.cfg_to_chomsky, Gr)
            rs = BC.snap_cfg(res)
            err = RC.valid(rs) or RC.is_cnf(rs)
            if err:
                raise Fail("derive_chomsky_invalid", "step %d: cfg_to_chomsky on an object with history %s: %s" % (k, hist, err))
            if RC.lang_upto(rs, L) != RC.lang_upto(spec, L):
                raise Fail("derive_chomsky_language", "step %d: cfg_to_chomsky on an object with history %s changes the language" % (k, hist))
            if BC.snap_cfg(Gr) != spec:
                raise Fail("derive_mutates_cfg", "step %d: cfg_to_chomsky changed the grammar it was applied to" % k)
            nmod += 1
            cls.add("to_chomsky")
    return {"nt": nq >= 2 and nmod >= 1, "cls": sorted(cls), "out": {"queries": nq, "other_steps": nmod}}


@st.composite
def cfg_programs(draw, tier):
    terms = ("a", "b") if draw(st.integers(0, 2)) else ("a",)
    spec = draw(st.one_of(GC.cfg_specs(max_vars=3, terms=terms, max_len=3), GC.cnf_specs(max_vars=3, terms=terms, max_rules=6), GC.unit_chain_specs(terms=terms, max_len=4)))
    words = st.lists(st.text(alphabet=list(terms), max_size=4), min_size=1, max_size=4)
    steps = [{"op": "query", "words": draw(words)}]
    for _ in range(draw(st.integers(2, 6 if tier == "quick" else 10))):
        k = draw(st.integers(0, 9))
        if k <= 2:
            steps.append({"op": "query", "words": draw(words)})
        elif k == 3:
            steps.append({"op": "enumerate", "n": draw(st.integers(0, 3))})
        elif k <= 6:
            steps.append({"op": "in_place", "what": draw(st.sampled_from(sorted(CFG_IN_PLACE))), "hint": draw(st.sampled_from(["S", "T", "Z"]))})
        elif k <= 8:
            steps.append({"op": "edit", "what": draw(st.sampled_from(["add_rule", "drop_rule", "change_start"])), "a": draw(st.integers(0, 9)),
                          "rhs": draw(st.lists(st.integers(0, 9), max_size=3))})
        else:
            steps.append({"op": "to_chomsky"})
    steps.append({"op": "query", "words": draw(words)})
    steps.append({"op": "enumerate", "n": draw(st.integers(0, 3))})
    return {"cfg": spec, "steps": steps}


CFG_RULE = ("model-based object histories on one grammar object: repeated membership queries and enumerations (vs. the span fixpoint on the model), the in-place phases of the Chomsky "
            "conversion (language must be kept; the model becomes the validated snapshot), direct edits (rules added / dropped, start variable changed) and the pure cfg_to_chomsky; "
            "non-trivial: >= 2 queries and >= 1 other step")
