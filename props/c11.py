"""C11 - TM simulation follows Sipser semantics with a three-valued bounded verdict."""
from hypothesis import strategies as st

from harness.engine import Clause, Fail, lib
from ref import tm as RT
from gen import tm as GT, fa as G
from bridge import tm as BT

from gambatools.tm_algorithms import tm_accepts_word, tm_simulate_word

ASSUMPTIONS = ["deterministic TMs given as a partial function delta; single-character symbols; words over the input alphabet",
               "tapes are compared modulo trailing blanks to the right of the head"]
BUDGETS = [0, 1, 2, 3, 5, 10, 50, 1000]


def norm_row(row, blank):
    q, tape, head = row
    tape = list(tape)
    while len(tape) - 1 > head and tape[-1] == blank:
        tape.pop()
    return (q, tape, head)


def run(case):
    spec, ks = case["tm"], case["ks"]
    T = BT.mk_tm(spec)
    before = BT.canon(spec)
    ws = G.all_words(spec["S"], case["L"])
    cls = set()
    nt = False
    halting = {spec["acc"], spec["rej"]}
    if spec["q0"] in halting:
        cls.add("initial_state_halting")
    for w in ws:
        decided = None
        # budgets are queried on the same object in the generated (not sorted) order, some of them twice
        order = list(ks) + [ks[0]]
        answers = {}
        for k in order:
            want, trace = RT.run(spec, w, k)
            got = lib(tm_accepts_word, T, w, k)
            if got is not want:
                raise Fail("verdict", "tm_accepts_word(%r, max_steps=%d) = %r, Sipser semantics gives %r (budgets queried so far on this object: %r)" % (w, k, got, want, order[:order.index(k) + 1]), word=w, k=k)
            answers[k] = got
        for k in sorted(ks):
            want, trace = RT.run(spec, w, k)
            got = answers[k]
            if decided is not None and got is not decided:
                raise Fail("verdict_not_monotone", "verdict for %r changes from %r to %r with a larger budget %d" % (w, decided, got, k))
            if got is not None:
                decided = got
            rows = lib(tm_simulate_word, T, w, k)
            rows = [norm_row(r, spec["blank"]) for r in rows]
            ref_rows = [norm_row(r, spec["blank"]) for r in trace]
            if not rows or rows[0] != ref_rows[0]:
                raise Fail("trace_start", "trace for %r does not start at the initial configuration: %r" % (w, rows[:1]))
            if rows != ref_rows:
                i = next(i for i in range(max(len(rows), len(ref_rows))) if i >= len(rows) or i >= len(ref_rows) or rows[i] != ref_rows[i])
                raise Fail("trace", "trace for %r (budget %d) deviates at step %d: %r, expected %r" % (w, k, i, rows[i] if i < len(rows) else None, ref_rows[i] if i < len(ref_rows) else None))
            if any(r[0] in halting for r in rows[:-1]):
                raise Fail("trace_continues_after_halt", "trace for %r continues after a halting state" % w)
            last = rows[-1][0]
            if (want is True) != (last == spec["acc"]) or (want is False) != (last == spec["rej"]):
                raise Fail("trace_verdict_mismatch", "trace for %r ends in %r but the verdict is %r" % (w, last, want))
            # classification
            if len(trace) >= 3:
                d = {(p, a) for p, a, _, _, _ in spec["d"]}
                for i in range(len(trace) - 1):
                    q, tape, head = trace[i]
                    a = tape[head] if head < len(tape) else spec["blank"]
                    if (q, a) not in d:
                        cls.add("missing_transition")
                        nt = True
                    else:
                        t = next(t for t in spec["d"] if t[0] == q and t[1] == a)
                        if t[4] == "L" and head == 0:
                            cls.add("left_move_at_left_end")
                            nt = True
                        if t[3] == spec["blank"]:
                            cls.add("blank_written")
                            nt = True
                if want is None:
                    cls.add("budget_exhausted")
                    nt = True
    if BT.snap_tm(T) != before:
        raise Fail("mutates_argument", "the TM was changed by simulation")
    return {"nt": nt, "cls": sorted(cls), "out": {"words": len(ws), "budgets": sorted(ks)}}


@st.composite
def cases(draw, tier):
    spec = draw(GT.tm_specs(max_states=4 if tier == "quick" else 5))
    ks = draw(st.lists(st.sampled_from(BUDGETS), min_size=2, max_size=4, unique=True))
    return {"tm": spec, "ks": ks, "L": 3 if len(spec["S"]) == 2 else 4}


CAP = 1300


def check_query(T, spec, w, k, default=False, full=None):
    """One verdict query and one trace query with budget k (or the default budget 1000 when default=True) against the oracle.
    full: the oracle's (verdict, trace) under budget CAP, of which the run under a smaller budget is a prefix."""
    kk = 1000 if default else k
    if full is not None and kk <= CAP:
        h = len(full[1]) - 1
        want, trace = (full[0] if kk >= h else None), full[1][:min(kk, h) + 1]
    else:
        want, trace = RT.run(spec, w, kk)
    args = (T, w) if default else (T, w, k)
    label = "default budget" if default else "max_steps=%d" % k
    got = lib(tm_accepts_word, *args)
    if got is not want:
        raise Fail("verdict", "tm_accepts_word(%r, %s) = %r, Sipser semantics gives %r" % (w, label, got, want), word=w, k=k)
    rows = lib(tm_simulate_word, *args)
    if not isinstance(rows, list) or not rows:
        raise Fail("trace_start", "trace for %r is %r" % (w, rows))
    rows = [norm_row(r, spec["blank"]) for r in rows]
    ref_rows = [norm_row(r, spec["blank"]) for r in trace]
    if rows[0] != ref_rows[0]:
        raise Fail("trace_start", "trace for %r does not start at the initial configuration: %r" % (w, rows[:1]))
    if rows != ref_rows:
        i = next(i for i in range(max(len(rows), len(ref_rows))) if i >= len(rows) or i >= len(ref_rows) or rows[i] != ref_rows[i])
        raise Fail("trace", "trace for %r (%s) deviates at step %d: %r, expected %r" % (w, label, i, rows[i] if i < len(rows) else None, ref_rows[i] if i < len(ref_rows) else None))
    return got, len(trace) - 1


def run_boundary(case):
    spec = case["tm"]
    T = BT.mk_tm(spec)
    before = BT.canon(spec)
    cls = set()
    nt = False
    for w in case["words"]:
        full, trace = RT.run(spec, w, CAP)
        h = len(trace) - 1 if full is not None else None
        ks = set(case["ks"])
        if h is not None:
            ks |= {max(h - 1, 0), h, h + 1, 2 * h + 1}
            if h >= 2:
                nt = True
                cls.add("halting_time_%s" % ("2_9" if h < 10 else ("10_99" if h < 100 else "100_plus")))
            if any(t[2] == 0 and trace[i][2] == 0 for i, t in enumerate(trace[1:])) and any(r[2] > 0 for r in trace):
                cls.add("returns_to_left_end")
        else:
            cls.add("does_not_halt_within_%d" % CAP)
        order = sorted(ks, reverse=case["desc"])
        seen = {}
        for k in order:
            v, steps = check_query(T, spec, w, k, full=(full, trace))
            seen[k] = v
            if h is not None and ((k >= h) != (v is not None)):
                raise Fail("boundary", "machine halts on %r after exactly %d steps, verdict with budget %d is %r" % (w, h, k, v))
        decided = {v for v in seen.values() if v is not None}
        if len(decided) > 1:
            raise Fail("verdict_not_monotone", "verdicts for %r under budgets %r: %r" % (w, order, seen))
        check_query(T, spec, w, 0, default=True, full=(full, trace))
        if h is not None and h > 1000:
            cls.add("needs_more_than_default_budget")
    if BT.snap_tm(T) != before:
        raise Fail("mutates_argument", "the TM was changed by simulation")
    return {"nt": nt, "cls": sorted(cls), "out": {"words": len(case["words"])}}


@st.composite
def boundary_cases(draw, tier):
    k = draw(st.integers(0, 9))
    if k == 0:
        spec = draw(GT.walker_tm_specs(lengths=(998, 999, 1000, 1001, 1002)))
        words = ["", "a", "aa"]
    else:
        spec = draw(GT.textbook_tm_specs())
        S = spec["S"] or ["a"]
        words = draw(st.lists(st.text(alphabet=S, max_size=8 if tier == "quick" else 12), min_size=1, max_size=4, unique=True))
        if spec["S"] == ["a", "b"] and draw(st.booleans()):
            n = draw(st.integers(0, 4))
            words.append("a" * n + "b" * n)
        if not spec["S"]:
            words = [""]
    ks = draw(st.lists(st.integers(0, 80), max_size=3, unique=True))
    return {"tm": spec, "words": words, "ks": ks, "desc": draw(st.booleans())}


def run_history(case):
    """A history of queries and in-place edits on one or two TM objects; every answer is compared with the oracle on the object's current content."""
    import copy
    specs = [copy.deepcopy(s) for s in case["tms"]]
    objs = [BT.mk_tm(s) for s in specs]
    cls = set()
    edits = 0
    queries_after_edit = 0
    for op in case["ops"]:
        i = op[1] % len(objs)
        T, spec = objs[i], specs[i]
        if op[0] == "query":
            _, w, k = op[1], op[2], op[3]
            w = "".join(ch for ch in w if ch in spec["S"])
            check_query(T, spec, w, k, default=(k is None))
            if edits:
                queries_after_edit += 1
        elif op[0] == "words":
            n, k = op[2], op[3]
            from gambatools.tm_algorithms import tm_words_up_to_n
            got = lib(tm_words_up_to_n, T, n, k)
            want = {w for w in G.all_words(spec["S"], n) if RT.run(spec, w, k)[0] is True}
            if not isinstance(got, set) or got != want:
                raise Fail("words_up_to_n", "tm_words_up_to_n(T, %d, %d): missing %r extra %r" % (n, k, sorted(want - set(got))[:3], sorted(set(got) - want)[:3]))
        elif op[0] == "print":
            lib(str, T)
        elif op[0] == "set":
            p = spec["Q"][op[2] % len(spec["Q"])]
            if p in (spec["acc"], spec["rej"]):
                continue
            a = spec["G"][op[3] % len(spec["G"])]
            q = spec["Q"][op[4] % len(spec["Q"])]
            b = spec["G"][op[5] % len(spec["G"])]
            m = "LR"[op[6] % 2]
            spec["d"] = [t for t in spec["d"] if not (t[0] == p and t[1] == a)] + [[p, a, q, b, m]]
            T.delta[p, a] = (q, b, m)
            edits += 1
            cls.add("transition_set_in_place")
        elif op[0] == "del":
            if not spec["d"]:
                continue
            t = spec["d"].pop(op[2] % len(spec["d"]))
            del T.delta[t[0], t[1]]
            edits += 1
            cls.add("transition_deleted_in_place")
        if BT.snap_tm(T) != BT.canon(spec):
            raise Fail("mutates_argument", "operation %r changed the TM object" % (op[0],))
    if len(objs) == 2:
        cls.add("two_objects")
    return {"nt": queries_after_edit > 0, "cls": sorted(cls), "out": {"ops": len(case["ops"]), "edits": edits}}


@st.composite
def history_cases(draw, tier):
    n = draw(st.integers(1, 2))
    first = draw(GT.textbook_tm_specs())
    tms = [first]
    if n == 2:
        # the second machine shares names with the first: same structure with one change, or an unrelated machine
        if draw(st.booleans()) and first["d"]:
            other = dict(first, d=[list(t) for t in first["d"]])
            i = draw(st.integers(0, len(other["d"]) - 1))
            other["d"][i][2] = other["Q"][draw(st.integers(0, len(other["Q"]) - 1))]
            tms.append(other)
        else:
            tms.append(draw(GT.textbook_tm_specs()))
    words = st.text(alphabet="ab", max_size=6)
    budget = st.one_of(st.sampled_from([0, 1, 2, 3, 5, 10, 50, 1000, None]), st.integers(0, 40))
    op = st.one_of(
        st.tuples(st.just("query"), st.integers(0, 1), words, budget),
        st.tuples(st.just("query"), st.integers(0, 1), words, budget),
        st.tuples(st.just("words"), st.integers(0, 1), st.integers(0, 3), st.sampled_from([0, 3, 10, 50, 1000])),
        st.tuples(st.just("print"), st.integers(0, 1)),
        st.tuples(st.just("set"), st.integers(0, 1), st.integers(0, 63), st.integers(0, 7), st.integers(0, 63), st.integers(0, 7), st.integers(0, 1)),
        st.tuples(st.just("del"), st.integers(0, 1), st.integers(0, 63)),
    )
    ops = draw(st.lists(op, min_size=3, max_size=10 if tier == "quick" else 16))
    # repeat an earlier query after the edits: a stale cache would answer from before the edit
    qs = [o for o in ops if o[0] == "query"]
    if qs:
        ops.append(qs[draw(st.integers(0, len(qs) - 1))])
    return {"tms": tms, "ops": [list(o) for o in ops]}


CLAUSES = [
    Clause("simulate", cases, run, quick=700, thorough=6000,
           rule="random deterministic TMs (2-5 states, partial delta, L/R moves, blank writes, extra tape symbol, halting initial state class) x all words up "
                "to length 3-4 x step budgets from {0,1,2,3,5,10,50,1000}; verdict compared by identity, traces element-wise, monotonicity in the budget; "
                "non-trivial: a run of >= 2 steps with a missing transition, a left move at cell 0, a blank write or an exhausted budget"),
]
CLAUSES += [
    Clause("boundary", boundary_cases, run_boundary, quick=400, thorough=4000,
           rule="textbook machines (a^n b^n, right-then-left walkers bouncing at cell 0, erasers writing blanks, non-halting spinners, chain walkers of 3..60 and "
                "998..1002 states, random machines; one transition dropped/flipped one time in four) x words up to length 8 (12 thorough) x budgets h-1, h, h+1, 2h+1 "
                "around the oracle's halting time h, random budgets 0..80 and the default budget (argument omitted); verdict decided iff budget >= h, traces element-wise; "
                "non-trivial: halting time >= 2"),
    Clause("object_history", history_cases, run_history, quick=400, thorough=4000,
           rule="histories on one or two live TM objects: verdict/trace queries with arbitrary budgets, tm_words_up_to_n, printing, in-place edits of delta "
                "(set / delete a transition), an earlier query repeated at the end; every answer compared with the oracle on the object's current content; "
                "non-trivial: a query after an in-place edit"),
]
KNOWN_PREDICATES = {}

# coverage-guided second driver (atheris / libFuzzer through Hypothesis' fuzz_one_input) for the core clauses: (clause, quick runs, thorough runs)
from harness.covfuzz import cov_clauses  # noqa: E402
CLAUSES += cov_clauses('C11', CLAUSES, [('simulate', 2000, 13333)])
