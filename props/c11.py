"""C11 - TM simulation follows Sipser semantics with a three-valued bounded verdict."""
from hypothesis import strategies as st

from harness.engine import Clause, Fail, lib
from ref import tm as RT
from gen import tm as GT, fa as G
from bridge import tm as BT

from gambatools.tm_algorithms import tm_accepts_word, tm_simulate_word

ASSUMPTIONS = ["deterministic TMs given as a partial function delta; single-character symbols; words over the input alphabet",
               "tapes are compared modulo trailing blanks to the right of the head"]
BUDGETS = [0, 1, 2, 3, 5, 10, 50, 1000]


def norm_row(row, blank):
    q, tape, head = row
    tape = list(tape)
    while len(tape) - 1 > head and tape[-1] == blank:
        tape.pop()
    return (q, tape, head)


def run(case):
    spec, ks = case["tm"], case["ks"]
    T = BT.mk_tm(spec)
    before = BT.canon(spec)
    ws = G.all_words(spec["S"], case["L"])
    cls = set()
    nt = False
    halting = {spec["acc"], spec["rej"]}
    if spec["q0"] in halting:
        cls.add("initial_state_halting")
    for w in ws:
        decided = None
        # budgets are queried on the same object in the generated (not sorted) order, some of them twice
        order = list(ks) + [ks[0]]
        answers = {}
        for k in order:
            want, trace = RT.run(spec, w, k)
            got = lib(tm_accepts_word, T, w, k)
            if got is not want:
                raise Fail("verdict", "tm_accepts_word(%r, max_steps=%d) = %r, Sipser semantics gives %r (budgets queried so far on this object: %r)" % (w, k, got, want, order[:order.index(k) + 1]), word=w, k=k)
            answers[k] = got
        for k in sorted(ks):
            want, trace = RT.run(spec, w, k)
            got = answers[k]
            if decided is not None and got is not decided:
                raise Fail("verdict_not_monotone", "verdict for %r changes from %r to %r with a larger budget %d" % (w, decided, got, k))
            if got is not None:
                decided = got
            rows = lib(tm_simulate_word, T, w, k)
            rows = [norm_row(r, spec["blank"]) for r in rows]
            ref_rows = [norm_row(r, spec["blank"]) for r in trace]
            if not rows or rows[0] != ref_rows[0]:
                raise Fail("trace_start", "trace for %r does not start at the initial configuration: %r" % (w, rows[:1]))
            if rows != ref_rows:
                i = next(i for i in range(max(len(rows), len(ref_rows))) if i >= len(rows) or i >= len(ref_rows) or rows[i] != ref_rows[i])
                raise Fail("trace", "trace for %r (budget %d) deviates at step %d: %r, expected %r" % (w, k, i, rows[i] if i < len(rows) else None, ref_rows[i] if i < len(ref_rows) else None))
            if any(r[0] in halting for r in rows[:-1]):
                raise Fail("trace_continues_after_halt", "trace for %r continues after a halting state" % w)
            last = rows[-1][0]
            if (want is True) != (last == spec["acc"]) or (want is False) != (last == spec["rej"]):
                raise Fail("trace_verdict_mismatch", "trace for %r ends in %r but the verdict is %r" % (w, last, want))
            # classification
            if len(trace) >= 3:
                d = {(p, a) for p, a, _, _, _ in spec["d"]}
                for i in range(len(trace) - 1):
                    q, tape, head = trace[i]
                    a = tape[head] if head < len(tape) else spec["blank"]
                    if (q, a) not in d:
                        cls.add("missing_transition")
                        nt = True
                    else:
                        t = next(t for t in spec["d"] if t[0] == q and t[1] == a)
                        if t[4] == "L" and head == 0:
                            cls.add("left_move_at_left_end")
                            nt = True
                        if t[3] == spec["blank"]:
                            cls.add("blank_written")
                            nt = True
                if want is None:
                    cls.add("budget_exhausted")
                    nt = True
    if BT.snap_tm(T) != before:
        raise Fail("mutates_argument", "the TM was changed by simulation")
    return {"nt": nt, "cls": sorted(cls), "out": {"words": len(ws), "budgets": sorted(ks)}}


@st.composite
def cases(draw, tier):
    spec = draw(GT.tm_specs(max_states=4 if tier == "quick" else 5))
    ks = draw(st.lists(st.sampled_from(BUDGETS), min_size=2, max_size=4, unique=True))
    return {"tm": spec, "ks": ks, "L": 3 if len(spec["S"]) == 2 else 4}


CLAUSES = [
    Clause("simulate", cases, run, quick=700, thorough=6000,
           rule="random deterministic TMs (2-5 states, partial delta, L/R moves, blank writes, extra tape symbol, halting initial state class) x all words up "
                "to length 3-4 x step budgets from {0,1,2,3,5,10,50,1000}; verdict compared by identity, traces element-wise, monotonicity in the budget; "
                "non-trivial: a run of >= 2 steps with a missing transition, a left move at cell 0, a blank write or an exhausted budget"),
]
KNOWN_PREDICATES = {}
