"""C17 - parsers build exactly what was written and reject malformed descriptions."""
from hypothesis import strategies as st

from harness.engine import Clause, Fail, lib
from ref import fa, pda as RP, tm as RTM, text as RT
from gen import text as GX
from bridge import fa as B, pda as BP, tm as BT

from gambatools.dfa_algorithms import parse_dfa
from gambatools.nfa_algorithms import parse_nfa
from gambatools.pda_algorithms import parse_pda
from gambatools.tm_algorithms import parse_tm

ASSUMPTIONS = [
    "well-formed texts are rendered by ref/text.py from a known spec; optional declarations are omitted only when they are derivable, epsilon/blank only when the "
    "documented default (ε/□ if it occurs in a label, else _) applies, accept/reject only with the default names and without a states line",
    "a TM description without input_symbols denotes the input alphabet 'all non-blank tape symbols'; it is omitted only for specs where that is the intended alphabet",
    "corruption classes are the ones the property lists; 'rejected' means any exception is raised",
]
PARSE = {"dfa": parse_dfa, "nfa": parse_nfa, "pda": parse_pda, "tm": parse_tm}
SNAP = {"dfa": B.snap_dfa, "nfa": B.snap_nfa, "pda": BP.snap_pda, "tm": BT.snap_tm}
VALID = {"dfa": fa.valid_dfa_snapshot, "nfa": fa.valid_nfa_snapshot, "pda": RP.valid, "tm": RTM.valid}


def run_wellformed(case):
    kind, spec, layout = case["kind"], case["spec"], case["layout"]
    text = RT.render(kind, spec, layout)
    obj = lib(PARSE[kind], text)
    got = RT.canon(kind, SNAP[kind](obj))
    want = RT.canon(kind, spec)
    if got != want:
        diff = [k for k in want if got.get(k) != want[k]]
        raise Fail("wrong_automaton_" + kind, "parse_%s builds a different automaton (fields %s): got %r, written %r; text:\n%s" %
                   (kind, diff, {k: got.get(k) for k in diff}, {k: want[k] for k in diff}, text))
    ways = len(layout["omit"]) + sum(bool(layout[k]) for k in ("group", "comments", "tabs", "blank_lines", "pad")) + bool(layout["order"])
    return {"nt": ways >= 2 and len(spec["Q"]) >= 2, "cls": [kind] + ["omit_" + o for o in layout["omit"]], "out": {"lines": text.count("\n") + 1}}


def run_corrupt(case):
    kind, spec = case["kind"], case["spec"]
    # the uncorrupted fully-declared text must parse to the spec (otherwise a rejection below would prove nothing)
    base = RT.render(kind, spec, {"group": False})
    obj = lib(PARSE[kind], base)
    if RT.canon(kind, SNAP[kind](obj)) != RT.canon(kind, spec):
        raise Fail("wrong_automaton_" + kind, "the fully declared text is parsed to a different automaton:\n%s" % base)
    n = 0
    for name, text in RT.corruptions(kind, spec):
        n += 1
        try:
            res = PARSE[kind](text)
        except Exception:
            continue
        raise Fail("accepted_%s_%s" % (kind, name), "parse_%s accepts a description with the fault '%s' and returns %s; text:\n%s" % (kind, name, type(res).__name__, text))
    return {"nt": len(spec["Q"]) >= 2, "cls": [kind], "out": {"corruptions": n}}


TOKENS = ["states", "initial", "final", "input_symbols", "stack_symbols", "tape_symbols", "epsilon", "blank", "accept", "reject",
          "q0", "q1", "q2", "p", "a", "b", "0", "_", "ε", "□", "a,_$", "_,$_", "a,ab", "ε,εε", "b,$ε", "ab,R", "__,L", "a□,R", "□□,L", "0x,R",
          "%", "% c", "q-1", "{q0,q1}", "(q0,q1)", "a,b", ",", "x", "$"]


def run_soup(case):
    kind, text = case["kind"], case["text"]
    try:
        obj = PARSE[kind](text)
    except Exception:
        return {"nt": False, "cls": [kind, "rejected"], "out": {}}
    try:
        snap = SNAP[kind](obj)
    except Exception as e:
        raise Fail("soup_unsnapshotable_" + kind, "parse_%s returned an object that cannot be read back (%s); text:\n%s" % (kind, e, text))
    err = VALID[kind](snap)
    if err:
        raise Fail("soup_invalid_" + kind, "parse_%s returned an object violating its class invariants (%s); text:\n%s" % (kind, err, text))
    return {"nt": True, "cls": [kind, "returned_object"], "out": {"states": len(snap["Q"])}}


@st.composite
def wf_cases(draw, tier):
    kind = draw(st.sampled_from(RT.KINDS))
    k = draw(st.integers(0, 11))
    if k == 11:
        kind = draw(st.sampled_from(["dfa", "dfa", "nfa"]))
        spec = draw(GX.multichar_symbol_specs(kind))
    else:
        spec = draw(GX.wide_text_specs(kind)) if k == 0 else draw(GX.text_specs(kind, max_states=4))
    return {"kind": kind, "spec": spec, "layout": draw(GX.layouts(kind, spec))}


@st.composite
def corrupt_cases(draw, tier):
    kind = draw(st.sampled_from(RT.KINDS))
    if draw(st.integers(0, 14)) == 0:
        kind = draw(st.sampled_from(["dfa", "nfa"]))
        return {"kind": kind, "spec": draw(GX.multichar_symbol_specs(kind))}
    return {"kind": kind, "spec": draw(GX.text_specs(kind, max_states=3))}


@st.composite
def soup_cases(draw, tier):
    kind = draw(st.sampled_from(RT.KINDS))
    if draw(st.booleans()):
        # start from a well-formed text and perturb it
        spec = draw(GX.text_specs(kind, max_states=3))
        lines = RT.render(kind, spec, draw(GX.layouts(kind, spec))).split("\n")
        if draw(st.integers(0, 3)) == 0:
            # a symbol with a special role (epsilon, blank) or a junk token is also listed in one of the declarations
            decl = [i for i, l in enumerate(lines) if l.split() and l.split()[0] in ("input_symbols", "stack_symbols", "tape_symbols", "states", "final", "initial")]
            if decl:
                i = decl[draw(st.integers(0, len(decl) - 1))]
                special = [spec.get("eps"), spec.get("blank"), "_", "ε", "□"]
                tok = draw(st.sampled_from([x for x in special if x] + TOKENS[10:20]))
                lines[i] = lines[i] + " " + tok
                return {"kind": kind, "text": "\n".join(lines)}
        for _ in range(draw(st.integers(1, 3))):
            op = draw(st.integers(0, 3))
            i = draw(st.integers(0, max(0, len(lines) - 1)))
            if op == 0 and lines:
                del lines[i]
            elif op == 1:
                lines.insert(i, " ".join(draw(st.lists(st.sampled_from(TOKENS), min_size=1, max_size=4))))
            elif op == 2 and lines:
                w = lines[i].split()
                if w:
                    w[draw(st.integers(0, len(w) - 1))] = draw(st.sampled_from(TOKENS))
                    lines[i] = " ".join(w)
            elif lines:
                lines[i] = lines[i] + " " + draw(st.sampled_from(TOKENS))
        return {"kind": kind, "text": "\n".join(lines)}
    lines = draw(st.lists(st.lists(st.sampled_from(TOKENS), min_size=0, max_size=5).map(" ".join), max_size=8))
    return {"kind": kind, "text": "\n".join(lines)}


FAMILY = {"dfa": "fa", "nfa": "fa", "pda": "pda", "tm": "tm"}


def run_history(case):
    """Several descriptions of different kinds are parsed one after the other in one case: every well-formed text must give exactly the described
    automaton and every faulty text must be rejected, whatever the parsers have seen before.  The faults include transition labels copied
    from the earlier texts of another format (a TM label in a PDA description, ...)."""
    seen = []
    cross = 0
    for i, stp in enumerate(case["steps"]):
        kind, spec = stp["kind"], stp["spec"]
        text = RT.render(kind, spec, stp["layout"])
        obj = lib(PARSE[kind], text)
        got, want = RT.canon(kind, SNAP[kind](obj)), RT.canon(kind, spec)
        if got != want:
            diff = [k for k in want if got.get(k) != want[k]]
            raise Fail("history_wrong_automaton_" + kind, "step %d: parse_%s builds a different automaton (fields %s) after parsing %s; text:\n%s" %
                       (i, kind, diff, [s["kind"] for s in case["steps"][:i]], text))
        faults = list(RT.corruptions(kind, spec))
        base = RT.render(kind, spec, {"group": False})
        q = spec["Q"][0]
        for k2, toks in seen:
            if FAMILY[k2] != FAMILY[kind]:
                for tok in sorted(toks)[:6]:
                    faults.append(("label_copied_from_%s_text" % k2, base + "\n%s %s %s" % (q, q, tok)))
                    if kind in ("pda", "tm"):
                        faults.append(("label_copied_from_%s_text_alphabets_omitted" % k2, RT.undeclared_base(kind, spec) + "\n%s %s %s" % (q, q, tok)))
                    cross += 1
        for name, bad in faults:
            try:
                res = PARSE[kind](bad)
            except Exception:
                continue
            raise Fail("history_accepted_%s_%s" % (kind, name), "step %d: parse_%s accepts a description with the fault '%s' after parsing %s; text:\n%s" %
                       (i, kind, name, [s["kind"] for s in case["steps"][:i]], bad))
        seen.append((kind, {l for _, _, l in RT.labels(kind, spec) if l}))
        if stp.get("edit"):
            # the returned object is the caller's: it is modified in place (as the library's in_place functions do) and the same text is parsed again -
            # the second result must again be exactly the described automaton
            extra = "zz_new"
            try:
                obj.Q.add(extra)
                if kind != "tm":
                    obj.F.add(extra)
            except Exception:
                pass
            obj2 = lib(PARSE[kind], text)
            got2 = RT.canon(kind, SNAP[kind](obj2))
            if got2 != want:
                diff = [k for k in want if got2.get(k) != want[k]]
                raise Fail("history_reparse_" + kind, "step %d: parsing the same %s text again after the first result was modified in place gives a different automaton (fields %s: %r)" %
                           (i, kind, diff, {k: got2.get(k) for k in diff}))
    return {"nt": cross > 0, "cls": ["steps_%d" % len(case["steps"])] + sorted({s["kind"] for s in case["steps"]}), "out": {"cross_format_labels": cross}}


@st.composite
def history_cases(draw, tier):
    steps = []
    for _ in range(draw(st.integers(2, 4))):
        kind = draw(st.sampled_from(RT.KINDS))
        spec = draw(GX.text_specs(kind, max_states=3))
        steps.append({"kind": kind, "spec": spec, "layout": draw(GX.layouts(kind, spec)), "edit": draw(st.integers(0, 2)) == 0})
    return {"steps": steps}


def fuzz_driver(tier, widx, nworkers, vseed, workdir):
    """Second driver of the token-soup oracle: atheris (libFuzzer) with coverage feedback from the library, one campaign per worker
    (even workers start from an empty corpus, odd workers from a few small valid inputs)."""
    import hashlib
    import json
    import os
    import subprocess
    import sys
    root = os.path.dirname(os.path.dirname(os.path.abspath(__file__)))
    env = dict(os.environ)
    probe = subprocess.run([sys.executable, "-c", "import atheris"], env=env, capture_output=True)
    if probe.returncode != 0:
        return {"evaluations": 0, "classes": {"fuzz_skipped_atheris_missing": 1}}
    out = os.path.join(workdir, "fuzz-w%d" % widx)
    runs = 6000 if tier == "quick" else 250000
    args = [sys.executable, os.path.join(root, "fuzz", "c17_fuzz.py"), out, str(runs), str(vseed * 1000 + widx + 1)] + (["seeded"] if widx % 2 else [])
    subprocess.run(args, env=env, stdout=subprocess.DEVNULL, stderr=subprocess.DEVNULL, timeout=3000)
    with open(os.path.join(out, "stats.json"), encoding="utf8") as f:
        st_ = json.load(f)
    fails = []
    for fl in st_["failures"]:
        with open(fl["file"], encoding="utf8") as f:
            rec = json.load(f)
        fails.append({"bucket": rec["bucket"], "case": rec["case"], "msg": "[atheris] " + rec["msg"], "details": {}})
    digs = [hashlib.sha1(("fuzz-%d-%d" % (widx, i)).encode()).hexdigest()[:16] for i in range(st_["distinct_returned"])]
    return {"evaluations": st_["executions"], "nt_digests": digs, "failures": fails,
            "samples": [{"clause": "token_soup_fuzz", "case": c, "outcome": "parser returned a valid object"} for c in st_.get("samples", [])[:1]],
            "classes": {"fuzz_executions": st_["executions"], "fuzz_returned_object": st_["returned_object"], "fuzz_rejected": st_["rejected"],
                        "fuzz_corpus_seeded" if widx % 2 else "fuzz_corpus_empty": 1}}


CLAUSES = [
    Clause("wellformed", wf_cases, run_wellformed, quick=1500, thorough=10000,
           rule="known specs of the four kinds rendered by an independent renderer in generated layouts (line order, omitted optional declarations, default eps/blank, "
                "comments, blank lines, tabs, padding, one or several labels per line); parsed object compared field by field with the spec; "
                "non-trivial: >= 2 states and the layout deviates from the canonical one in >= 2 ways"),
    Clause("corrupted", corrupt_cases, run_corrupt, quick=600, thorough=5000,
           rule="every single-fault corruption (no/empty/two initial states, each declaration repeated, incomplete transition, illegal state label, undeclared state / "
                "final state / symbol, non-deterministic and non-total DFA, malformed PDA/TM labels, TM input symbol not on the tape) of a fully declared text must raise; "
                "the uncorrupted text must parse to the spec; non-trivial: >= 2 states"),
    Clause("history", history_cases, run_history, quick=500, thorough=4000,
           rule="2-4 descriptions of different kinds parsed one after the other in one process: each well-formed text gives exactly its automaton and each single-fault "
                "corruption is rejected whatever was parsed before; the faults include transition labels copied from the earlier texts of another format; "
                "non-trivial: at least one label of another format was injected"),
    Clause("token_soup", soup_cases, run_soup, quick=1500, thorough=15000,
           rule="perturbed well-formed texts and lines assembled from keywords, names, labels and junk; whenever a parser returns, the object satisfies the class "
                "invariants of its kind (own predicates); non-trivial: the parser returned an object"),
    Clause("token_soup_fuzz", None, run_soup, quick=0, thorough=0, external=fuzz_driver,
           rule="the same oracle as token_soup inside an atheris/libFuzzer target (coverage feedback from the instrumented gambatools package; bytes decoded into a parser kind and either "
                "raw UTF-8 text or one token per byte); one campaign per worker (6000 executions in the quick tier, 250000 in the thorough tier), half of them starting from an empty "
                "corpus, half from the shipped example files; non-trivial: distinct inputs for which a parser returned an object (counted by the target)"),
]
KNOWN_PREDICATES = {}

# coverage-guided second driver (atheris / libFuzzer through Hypothesis' fuzz_one_input) for the core clauses: (clause, quick runs, thorough runs)
from harness.covfuzz import cov_clauses  # noqa: E402
CLAUSES += cov_clauses('C17', CLAUSES, [('wellformed', 3000, 20000), ('corrupted', 1500, 10000)])
