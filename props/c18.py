"""C18 - NFA union, concatenation and star under arbitrary call histories (model-based)."""
from hypothesis import strategies as st

from harness.engine import Clause, Fail, lib
from ref import fa
from gen import fa as G
from bridge import fa as B

from gambatools.nfa import NFA
from gambatools.identifier_generator import IdentifierGenerator
from gambatools import nfa_algorithms as NA

ASSUMPTIONS = [
    "operands of one history share the epsilon symbol and have disjoint state sets (the constructions assert disjointness); "
    "an operand whose states overlap the other one is replaced by a renamed copy",
    "state names \\w+, deliberately including q0..q9 (the names the identifier generator produces)",
]


def rename_spec(spec, suffix):
    m = {q: q + suffix for q in spec["Q"]}
    return {"Q": [m[q] for q in spec["Q"]], "S": list(spec["S"]), "d": [[m[p], a, m[q]] for p, a, q in spec["d"]],
            "q0": m[spec["q0"]], "F": [m[q] for q in spec["F"]], "eps": spec["eps"], "rep": spec.get("rep", "dd_set")}


def has_nonempty_word(spec):
    A = fa.determinise(spec)
    todo = [A["d"][A["q0"], a] for a in A["S"]]
    seen = set()
    while todo:
        q = todo.pop()
        if q in seen:
            continue
        seen.add(q)
        if q in A["F"]:
            return True
        todo.extend(A["d"][q, a] for a in A["S"])
    return False


class Obj(object):
    def __init__(self, lib_obj, ref_spec, snap, used=False):
        self.lib, self.ref, self.snap, self.used = lib_obj, ref_spec, snap, used


def check_language(obj_snap, ref_spec, what, sub):
    S = sorted(obj_snap["S"])
    A = fa.determinise(obj_snap, alphabet=S)
    R = fa.determinise(ref_spec, alphabet=S)
    w = fa.equiv(A, R)
    if w is not None:
        raise Fail(sub, "%s: language differs from the expected one on word %r (expected accepted: %r)" % (what, w, fa.accepts_rdfa(R, w)), word=w)


def run(case):
    eps = case["eps"]
    objs = []
    gen = IdentifierGenerator(case.get("gen_start", 0))
    # the shared default generators are process-global state: set them to the state reached after
    # case["default_calls"] earlier calls, so that a case is a pure function of its description
    from harness.libstate import set_identifier_generators
    set_identifier_generators(case.get("default_calls", 0))
    nt = False
    cls = set()
    steps = 0
    for k, op in enumerate(case["ops"]):
        kind = op["op"]
        if kind == "fresh":
            spec = dict(op["nfa"], eps=eps)
            objs.append(Obj(B.mk_nfa(spec), B.canon(spec), B.canon(spec)))
            continue
        if not objs:
            continue
        x = objs[op["x"] % len(objs)]
        steps += 1
        if kind == "copy":
            spec = rename_spec(dict(x.snap, rep="dd_set"), "_c%d" % k)
            objs.append(Obj(B.mk_nfa(spec), x.ref, B.canon(spec)))
            continue
        if kind in ("union", "concat"):
            y = objs[op["y"] % len(objs)]
            if set(x.snap["Q"]) & set(y.snap["Q"]):
                spec = rename_spec(dict(y.snap, rep=op.get("rep", "dd_lambda")), "_r%d" % k)
                y = Obj(B.mk_nfa(spec), y.ref, B.canon(spec))
                objs.append(y)
                cls.add("renamed_operand")
            operands = [x, y]
        else:
            operands = [x]
        if any(o.used for o in operands):
            cls.add("operand_reused")
        explicit = op.get("gen") == "explicit"
        if kind == "union":
            res = lib(NA.nfa_union, x.lib, y.lib, gen) if explicit else lib(NA.nfa_union, x.lib, y.lib)
            ref = fa.nfa_union(x.ref, y.ref)
            new_states = 1
        elif kind == "concat":
            res = lib(NA.nfa_concatenation, x.lib, y.lib)
            ref = fa.nfa_concat(x.ref, y.ref)
            new_states = 0
        else:
            res = lib(NA.nfa_repetition, x.lib, gen) if explicit else lib(NA.nfa_repetition, x.lib)
            ref = fa.nfa_star(x.ref)
            new_states = 1
        what = "%s (step %d)" % (kind, k)
        if not isinstance(res, NFA):
            raise Fail("type", "%s returned %r" % (what, type(res)))
        snap = B.snap_nfa(res)
        err = fa.valid_nfa_snapshot(snap)
        if err:
            raise Fail("invalid_nfa", "%s: %s" % (what, err))
        if snap["eps"] != eps:
            raise Fail("epsilon", "%s: result has epsilon %r, operands have %r" % (what, snap["eps"], eps))
        opQ = set().union(*[set(o.snap["Q"]) for o in operands])
        opS = set().union(*[set(o.snap["S"]) for o in operands])
        if set(snap["S"]) != opS:
            raise Fail("alphabet", "%s: result alphabet %r, operands' %r" % (what, snap["S"], sorted(opS)))
        added = set(snap["Q"]) - opQ
        if not opQ <= set(snap["Q"]) or len(added) != new_states:
            raise Fail("introduced_state", "%s: expected %d new state distinct from all operand states, result adds %r to %r" % (what, new_states, sorted(added), sorted(opQ)))
        check_language(snap, ref, what, "language_" + kind)
        for o in operands:
            o.used = True
        objs.append(Obj(res, ref, snap))
        # invariant: every object still has its reference language and its content
        for i, o in enumerate(objs):
            now = B.snap_nfa(o.lib)
            if now != o.snap:
                bad = fa.valid_nfa_snapshot(now)
                if bad:
                    raise Fail("operand_invalidated", "object %d is no longer a valid NFA after %s: %s" % (i, what, bad))
                check_language(now, o.ref, "object %d after %s" % (i, what), "operand_language_changed")
                cls.add("operand_content_changed_language_kept")   # content purity is C19's business
                o.snap = now
        if all(has_nonempty_word(o.ref) for o in operands):
            nt = True
        cls.add(kind)
        cls.add("gen_explicit" if explicit else "gen_default")
    if eps != "":
        cls.add("eps_not_empty_string")
    return {"nt": nt and steps >= 1, "cls": sorted(cls), "out": {"objects": len(objs), "steps": steps}}


@st.composite
def cases(draw, tier):
    eps = draw(st.sampled_from(["", "ε", "_"]))
    maxops = 8 if tier == "quick" else 20
    ops = []
    n0 = draw(st.integers(1, 3))
    for _ in range(n0):
        spec = draw(G.nfa_specs(max_states=3, min_sigma=0, max_sigma=2, eps_choices=[eps], pool=G.POOL if draw(st.booleans()) else G.POOL[:14]))
        ops.append({"op": "fresh", "nfa": spec})
    m = draw(st.integers(1, maxops))
    for _ in range(m):
        kind = draw(st.sampled_from(["union", "concat", "star", "union", "concat", "star", "fresh", "copy"]))
        if kind == "fresh":
            ops.append({"op": "fresh", "nfa": draw(G.nfa_specs(max_states=3, max_sigma=2, eps_choices=[eps], pool=G.POOL if draw(st.booleans()) else G.POOL[:14]))})
        else:
            ops.append({"op": kind, "x": draw(st.integers(0, 7)), "y": draw(st.integers(0, 7)),
                        "gen": draw(st.sampled_from(["default", "explicit"])), "rep": draw(st.sampled_from(G.REPS))})
    return {"eps": eps, "gen_start": draw(st.integers(0, 3)), "default_calls": draw(st.integers(0, 4)), "ops": ops}


CLAUSES = [
    Clause("history", cases, run, quick=600, thorough=5000,
           rule="model-based histories: fresh NFAs (names from a pool containing q0..q9, 3 map representations, shared eps in {'', 'ε', '_'}), "
                "union/concat/star with default or explicit identifier generator, renamed copies; after every call: valid NFA, exact language "
                "= operation on the operands' reference languages, exactly the expected number of new states, every earlier object unchanged; "
                "non-trivial: some operation whose operands all accept a non-empty word"),
]
KNOWN_PREDICATES = {}

# coverage-guided second driver (atheris / libFuzzer through Hypothesis' fuzz_one_input) for the core clauses: (clause, quick runs, thorough runs)
from harness.covfuzz import cov_clauses  # noqa: E402
CLAUSES += cov_clauses('C18', CLAUSES, [('history', 2000, 13333)])
