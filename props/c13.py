"""C13 - the library's own answers pass its checkers (generator + printer + parser + checker composed)."""
import contextlib
import glob
import importlib.util
import io
import json
import os
import tempfile

from hypothesis import strategies as st

from harness.engine import Clause, Fail, lib, REPO_SRC
from ref import fa, cfg as RC, pda as RP, regex as RX, text as RT
from gen import fa as G, pda as GP, tm as GT, cfg as GC, regex as GR, text as GX, answers as GA

from gambatools.global_settings import GambaTools
from gambatools import notebook as NB
from gambatools import notebook_dfa as ND
from gambatools import notebook_nfa2dfa as NN
from gambatools import notebook_cfg as NC
from gambatools import notebook_chomsky as NCH

ASSUMPTIONS = [
    "the answer is produced exactly as notebooks/make_notebook.py does it: the reference is written to a file, apply_command(<tag>, [file, ...]) yields the text that is "
    "substituted between the triple quotes of the template (so it is surrounded by newlines), and the checker of the template is called with the template's arguments",
    "reference objects are representable in the text formats (state names \\w+, printable epsilon/blank); DFA->regexp: letter alphabets and <= 3 states (cost, and 0/1 are "
    "reserved in the simple regexp syntax); grammars: simple format, every variable has an all-terminal alternative (so it derives a non-empty word), at most 6 variables; "
    "derivation exercises: CNF grammars and non-empty generated words; PDAs whose eps-closures (reference) stay within the configured limit",
]
NOTEBOOKS = os.environ.get("VERIF_NOTEBOOKS", os.path.join(os.path.dirname(REPO_SRC), "notebooks"))
PDA_LIMIT = 60

_mn = None


def make_notebook():
    global _mn
    if _mn is None:
        spec = importlib.util.spec_from_file_location("make_notebook_under_test", os.path.join(NOTEBOOKS, "make_notebook.py"))
        _mn = importlib.util.module_from_spec(spec)
        spec.loader.exec_module(_mn)
    return _mn


def generated(command, args):
    """What the template substitution produces for <<command(args)>> inside ''' ... '''."""
    buf = io.StringIO()
    with contextlib.redirect_stdout(buf):
        text = lib(make_notebook().apply_command, command, args)
    return json.loads('"' + make_notebook().unquote(json.dumps(text)) + '"')


def block(text):
    return "\n" + text + "\n"


PRELUDE = [False]


def expect_ok(what, fn, *args):
    if PRELUDE[0]:
        # an earlier, unsuccessful attempt in the same session: the same checker is first called with an empty answer and with the answer in the wrong
        # position (its verdict is irrelevant); the library's own answer must still be accepted afterwards
        for bad in ((("",) + args[1:]), (args[:1] + ("",) + args[2:]) if len(args) >= 2 and isinstance(args[1], str) else None):
            if bad is not None:
                with contextlib.redirect_stdout(io.StringIO()):
                    try:
                        fn(*bad)
                    except Exception:
                        pass
    buf = io.StringIO()
    with contextlib.redirect_stdout(buf):
        lib(fn, *args)
    lines = [l for l in buf.getvalue().split("\n") if l.strip()]
    if not lines or lines[0].strip() != "OK":
        raise Fail("own_answer_rejected_" + what, "%s does not print OK for the library's own answer: %r; arguments:\n%s" % (what, lines[:2], "\n---\n".join(str(a) for a in args)))


class workdir(object):
    def __enter__(self):
        self.t = tempfile.TemporaryDirectory(prefix="c13-")
        self.d = self.t.__enter__()
        self.old = GambaTools.pda_epsilon_closure_max_iterations
        GambaTools.pda_epsilon_closure_max_iterations = PDA_LIMIT
        return self

    def write(self, name, text):
        p = os.path.join(self.d, name)
        with open(p, "w", encoding="utf8") as f:
            f.write(text)
        return p

    def __exit__(self, *a):
        GambaTools.pda_epsilon_closure_max_iterations = self.old
        self.t.__exit__(*a)


def render(kind, spec, layout=None):
    if kind in RT.KINDS:
        return RT.render(kind, spec, layout or {"group": True})
    if kind == "cfg":
        eps = spec.get("_eps", "ε")
        text = GA.render_cfg(spec, eps)
        return text if eps in ("ε", "_") else "epsilon = %s\n%s" % (eps, text)      # a letter as the empty word has to be declared
    return GA.render_regexp_simple(spec)


WORDS_FN = {"dfa": NB.check_dfa_language_from_words, "nfa": NB.check_nfa_language_from_words, "pda": NB.check_pda_language_from_words,
            "tm": NB.check_tm_language_from_words, "cfg": NB.check_cfg_language_from_words, "regexp": NB.check_regexp_language_from_words}


def run_for_language(case):
    kind, spec, n = case["kind"], case["spec"], case["n"]
    if kind == "pda" and not all(max(RP.closure_sizes(spec, w, PDA_LIMIT)) <= PDA_LIMIT for w in G.all_words(spec["S"], n)):
        return {"nt": False, "cls": ["pda_beyond_closure_limit_skipped"]}
    with workdir() as wd:
        path = wd.write("reference." + kind, render(kind, spec, case.get("layout")))
        words = generated("generate", [path, str(n)])
        answer = block(generated("load", [path]))
        if kind in ("cfg", "regexp"):
            expect_ok("for_language_" + kind, WORDS_FN[kind], answer, words, n)
        else:
            expect_ok("for_language_" + kind, WORDS_FN[kind], answer, words, n, case["states"])
    nw = len(words.split())
    return {"nt": nw >= 2, "cls": [kind], "out": {"words": nw}}


def run_nfa2dfa(case):
    spec = case["nfa"]
    with workdir() as wd:
        path = wd.write("reference.nfa", render("nfa", spec, case.get("layout")))
        expect_ok("nfa2dfa", NN.check_nfa2dfa, block(generated("load", [path])), block(generated("nfa2dfa", [path])))
    D = fa.determinise(spec)
    return {"nt": len(D["Q"]) >= 2, "cls": ["dfa_states_%d" % min(len(D["Q"]), 4)], "out": {"dfa_states": len(D["Q"])}}


def run_dfa2regexp(case):
    spec = case["dfa"]
    with workdir() as wd:
        path = wd.write("reference.dfa", render("dfa", spec))
        regexp = generated("dfa2regexp", [path])
        if len(regexp) > 60:
            return {"nt": False, "cls": ["regexp_too_long_skipped"]}
        if case["n"]:
            expect_ok("dfa2regexp", NB.check_dfa2regexp, block(generated("load", [path])), block(regexp), case["n"])
        else:
            expect_ok("dfa2regexp", NB.check_dfa2regexp, block(generated("load", [path])), block(regexp))
    return {"nt": len(spec["Q"]) >= 2 and len(regexp) >= 3, "cls": ["default_length" if not case["n"] else "length_%d" % case["n"]], "out": {"regexp": regexp}}


def run_product(case):
    d1, d2, op = case["d1"], case["d2"], case["op"]
    fn = {"union": ND.check_dfa_union, "intersection": ND.check_dfa_intersection, "symmetric_difference": ND.check_dfa_symmetric_difference}[op]
    with workdir() as wd:
        p1, p2 = wd.write("a.dfa", render("dfa", d1)), wd.write("b.dfa", render("dfa", d2))
        expect_ok("product_" + op, fn, block(generated("dfa_" + op, [p1, p2])), block(generated("load", [p1])), block(generated("load", [p2])))
    return {"nt": len(d1["Q"]) >= 2 and len(d2["Q"]) >= 2, "cls": [op], "out": {}}


def run_unary(case):
    spec, ex = case["dfa"], case["exercise"]
    with workdir() as wd:
        path = wd.write("reference.dfa", render("dfa", spec, case.get("layout")))
        dfa = block(generated("load", [path]))
        if ex == "complement":
            expect_ok("complement", ND.check_dfa_complement, dfa, block(generated("dfa_complement", [path])))
        elif ex == "reverse":
            expect_ok("reverse", ND.check_dfa_reverse, dfa, block(generated("dfa_reverse", [path])), case["n"])
        elif ex == "minimal":
            expect_ok("minimal_quotient", ND.check_dfa_minimal, dfa, block(generated("dfa_minimize", [path])))
        else:
            expect_ok("minimal_hopcroft", ND.check_dfa_minimal, dfa, block(generated("dfa_hopfcroft", [path])))
    A = fa.rdfa(spec)
    cls = [ex]
    if len(fa.reachable(A)) < len(spec["Q"]):
        cls.append("unreachable_states")
    return {"nt": len(spec["Q"]) >= 2 and bool(spec["S"]), "cls": cls, "out": {}}


def run_cyk(case):
    spec, w = case["cfg"], case["w"]
    with workdir() as wd:
        path = wd.write("reference.cfg", render("cfg", spec))
        expect_ok("cyk", NC.check_cyk_matrix, block(generated("load", [path])), w, block(generated("cfg_cyk_matrix", [path, w])))
    return {"nt": len(w) >= 2, "cls": ["rows_%d" % len(w)], "out": {}}


def run_derivation(case):
    spec, w, mode = case["cfg"], case["w"], case["mode"]
    with workdir() as wd:
        path = wd.write("reference.cfg", render("cfg", spec))
        cfg = block(generated("load", [path]))
        if mode == "rightmost":
            expect_ok("derivation_rightmost", NC.check_cfg_derivation, cfg, generated("cfg_rightmost_derivation", [path, w]), w, "rightmost")
        elif mode == "leftmost":
            expect_ok("derivation_leftmost", NC.check_cfg_derivation, cfg, generated("cfg_leftmost_derivation", [path, w]), w)
        else:
            expect_ok("derivation_any", NC.check_cfg_derivation, cfg, generated("cfg_leftmost_derivation", [path, w]), w, "any")
    return {"nt": len(w) >= 2, "cls": [mode], "out": {}}


def run_chomsky(case):
    spec, S0, n = case["cfg"], case["start"], case["n"]
    with workdir() as wd:
        path = wd.write("reference.cfg", render("cfg", spec))
        cfg = block(generated("load", [path]))
        changed = 0
        prev = None
        for k in range(1, 6):
            ans = generated("chomsky%d" % k, [path, S0])
            expect_ok("chomsky_phase_%d" % k, NCH.cfg_check_chomsky, cfg, block(ans), k, S0, n)
            changed += ans != prev
            prev = ans
    return {"nt": changed >= 3, "cls": ["phases_changing_%d" % changed], "out": {}}


def run_notebook(case):
    path = os.path.join(NOTEBOOKS, "with-answers", case["notebook"])
    nb = json.load(open(path, encoding="utf8"))
    checks = exec_notebook(nb, NOTEBOOKS, "shipped_notebook_" + case["notebook"], case["notebook"])
    return {"nt": checks >= 1, "cls": ["shipped_notebook"], "out": {"check_cells": checks}}


def exec_notebook(nb, cwd, bucket, label):
    """Executes the code cells in-process; every checker-call cell must print OK.  Returns the number of such cells."""
    env = {}
    old = os.getcwd()
    checks = 0
    try:
        os.chdir(cwd)
        for c in nb["cells"]:
            if c["cell_type"] != "code":
                continue
            src = "".join(c["source"])
            last = src.strip().split("\n")[-1]
            is_check = (last.startswith("check_") or last.startswith("cfg_check")) and "=" not in last.split("(")[0]
            buf = io.StringIO()
            with contextlib.redirect_stdout(buf):
                if is_check:
                    lib(exec, src, env)
                else:
                    try:
                        exec(src, env)      # display / simulation cells are not the subject of this property
                    except Exception:
                        pass
            if is_check:
                checks += 1
                lines = [l for l in buf.getvalue().split("\n") if l.strip()]
                if not lines or lines[0].strip() != "OK":
                    raise Fail(bucket, "cell %r of %s prints %r" % (last, label, lines[:2]))
    finally:
        os.chdir(old)
    return checks


TEMPLATE_OF = {"dfa_lang": "dfa-for-language.ipynb", "nfa_lang": "nfa-for-language.ipynb", "dfa_minimal": "dfa-minimal.ipynb", "nfa2dfa": "nfa-to-dfa.ipynb"}


def run_generated(case):
    """Several exercises go through the notebook generator one after the other in one process (parse_paragraph -> make_notebook with answers), as `make_notebook.py` does for
    a batch file; every generated notebook is then executed: its checker-call cells must print OK."""
    MN = make_notebook()
    total = 0
    with workdir() as wd:
        for i, ex in enumerate(case["exercises"]):
            kind = "dfa" if ex["template"] in ("dfa_lang", "dfa_minimal") else "nfa"
            text = render(kind, ex["spec"], ex.get("layout"))
            if ex.get("file_tags"):
                text = "".join("%%%% %s = %s\n" % kv for kv in ex["file_tags"]) + text
            ref = wd.write("ref%d.%s" % (i, kind), text)
            par = ["templatefile = " + os.path.join(NOTEBOOKS, "templates", TEMPLATE_OF[ex["template"]]), "inputfile = " + ref, "name = ex%d" % i,
                   "question = Give an automaton", "selected_word = a"] + ["%s = %s" % kv for kv in ex.get("paragraph_tags", [])]
            out = os.path.join(wd.d, "ex%d.ipynb" % i)
            buf = io.StringIO()
            with contextlib.redirect_stdout(buf):
                settings = lib(MN.parse_paragraph, "\n".join(par))
                lib(MN.make_notebook, out, settings, True)
            nb = json.load(open(out, encoding="utf8"))
            total += exec_notebook(nb, wd.d, "generated_notebook_" + ex["template"], "the notebook generated for exercise %d of %r" % (i, [e["template"] for e in case["exercises"]]))
    return {"nt": len(case["exercises"]) >= 2 and total >= 2, "cls": sorted({e["template"] for e in case["exercises"]}), "out": {"check_cells": total}}


@st.composite
def generated_cases(draw, tier):
    exs = []
    for _ in range(draw(st.integers(2, 3))):
        t = draw(st.sampled_from(["dfa_lang", "nfa_lang", "dfa_lang", "nfa_lang", "dfa_minimal", "nfa2dfa"]))
        kind = "dfa" if t in ("dfa_lang", "dfa_minimal") else "nfa"
        if kind == "dfa":
            spec = draw(G.dfa_specs(max_states=4, min_sigma=1, max_sigma=2, pool=G.POOL[:10]))
        else:
            spec = draw(G.nfa_specs(max_states=4, min_sigma=1, max_sigma=2, eps_choices=["ε", "_"], pool=G.POOL[:10]))
        ex = {"template": t, "spec": spec, "file_tags": [], "paragraph_tags": []}
        if t.endswith("_lang"):
            n = len(spec["Q"])
            where = draw(st.sampled_from(["none", "none", "file", "paragraph"]))
            if where != "none":
                ex["file_tags" if where == "file" else "paragraph_tags"].append(("states", str(n + draw(st.integers(0, 2)))))    # a limit the reference itself satisfies
            if draw(st.booleans()):
                ex["file_tags" if draw(st.booleans()) else "paragraph_tags"].append(("length", str(draw(st.sampled_from([3, 4, 5])))))
            else:
                ex["paragraph_tags"].append(("length", "4"))
        exs.append(ex)
    return {"exercises": exs}


# ---------------- generators ----------------

@st.composite
def for_language_cases(draw, tier):
    kind = draw(st.sampled_from(["dfa", "nfa", "pda", "tm", "cfg", "regexp"]))
    layout = None
    if kind in RT.KINDS:
        spec = draw(GX.text_specs(kind, max_states=4))
        layout = draw(GX.layouts(kind, spec))
    elif kind == "cfg":
        spec = draw(nondegenerate_cfg())
    else:
        spec = draw(GR.trees(["a", "b"], max_leaves=6))
    n = 3 if kind in ("pda", "tm") else draw(st.sampled_from([3, 4, 5]))
    if kind in RT.KINDS and len(spec["S"]) > 2:
        n = 3
    return {"kind": kind, "spec": spec, "n": n, "states": draw(st.sampled_from([0, 0, 8, 4])) if kind in RT.KINDS and len(spec["Q"]) <= 4 else 0, "layout": layout}


@st.composite
def nondegenerate_cfg(draw, max_vars=4):
    spec = draw(GC.cfg_specs(max_vars=max_vars, terms=("a", "b"), simple=True, allow_norule=False, max_len=3))
    for A in spec["V"]:
        if not any(B == A and rhs and all(x in spec["T"] for x in rhs) for B, rhs in spec["R"]):
            spec["R"].append([A, [spec["T"][draw(st.integers(0, 1))] for _ in range(draw(st.integers(1, 2)))]])
    spec["R"] = [r for r in spec["R"] if r[0] == spec["S"]] + [r for r in spec["R"] if r[0] != spec["S"]]
    spec["T"] = sorted({x for _, rhs in spec["R"] for x in rhs if x not in spec["V"]})
    spec["_eps"] = draw(st.sampled_from(["ε", "ε", "_", "e", "z"]))
    return spec


@st.composite
def cnf_text_cfg(draw):
    spec = draw(GC.cnf_specs(max_vars=4, max_rules=9, start_eps=draw(st.booleans())))
    heads = {A for A, _ in spec["R"]}
    for A in spec["V"]:
        if A not in heads:
            spec["R"].append([A, [spec["T"][0]]])
    spec["R"] = [r for r in spec["R"] if r[0] == spec["S"]] + [r for r in spec["R"] if r[0] != spec["S"]]
    spec["T"] = sorted({x for _, rhs in spec["R"] for x in rhs if x not in spec["V"]}) or ["a"]
    return spec


@st.composite
def nfa2dfa_cases(draw, tier):
    spec = draw(G.nfa_specs(max_states=4, max_sigma=3, eps_choices=GX.PRINTABLE_EPS))
    return {"nfa": spec, "layout": draw(GX.layouts("nfa", spec))}


@st.composite
def dfa2regexp_cases(draw, tier):
    spec = draw(G.dfa_specs(max_states=3, sigma=draw(st.sampled_from([["a"], ["a", "b"], ["x", "y"]]))))
    return {"dfa": spec, "n": draw(st.sampled_from([4, 5, 6, 0] if tier == "quick" else [4, 5, 6, 0, 0]))}


@st.composite
def product_cases(draw, tier):
    S = draw(G.alphabets(0, 3))
    overlap = draw(st.booleans())
    return {"d1": draw(G.dfa_specs(max_states=3, sigma=S, pool=G.POOL[:8])), "d2": draw(G.dfa_specs(max_states=3, sigma=S, pool=G.POOL[:8] if overlap else G.POOL[8:16])),
            "op": draw(st.sampled_from(["union", "intersection", "symmetric_difference"]))}


@st.composite
def unary_cases(draw, tier):
    ex = draw(st.sampled_from(["complement", "reverse", "minimal", "hopcroft"]))
    spec = draw(st.one_of(G.dfa_specs(max_states=4, max_sigma=3), G.inflated_dfa_specs(max_states=3, max_sigma=2)))
    return {"dfa": spec, "exercise": ex, "n": draw(st.sampled_from([4, 5, 8] if len(spec["S"]) < 3 else [4, 5])), "layout": draw(GX.layouts("dfa", spec))}


@st.composite
def cyk_cases(draw, tier):
    spec = draw(cnf_text_cfg())
    return {"cfg": spec, "w": draw(st.text(alphabet=spec["T"], min_size=1, max_size=5))}


@st.composite
def derivation_cases(draw, tier):
    spec = draw(cnf_text_cfg())
    words = sorted(w for w in RC.lang_upto(spec, 5) if w)
    if not words:
        spec["R"].insert(0, [spec["S"], [spec["T"][0]]])
        words = sorted(w for w in RC.lang_upto(spec, 5) if w)
    return {"cfg": spec, "w": words[draw(st.integers(0, len(words) - 1))], "mode": draw(st.sampled_from(["leftmost", "rightmost", "any"]))}


@st.composite
def chomsky_cases(draw, tier):
    if draw(st.integers(0, 3)) == 0:
        # every rule already has Chomsky shape, but the grammar is not in normal form (nullable non-start variables, start variable on a right-hand side)
        spec = draw(GC.pseudo_cnf_specs(max_vars=3))
        for A in spec["V"]:
            if not any(B == A and len(rhs) == 1 for B, rhs in spec["R"]):
                spec["R"].append([A, [spec["T"][draw(st.integers(0, 1))]]])
        spec["R"] = [r for r in spec["R"] if r[0] == spec["S"]] + [r for r in spec["R"] if r[0] != spec["S"]]
        spec["T"] = sorted({x for _, rhs in spec["R"] for x in rhs if x not in spec["V"]})
        spec["_eps"] = draw(st.sampled_from(["ε", "_"]))
    else:
        spec = draw(nondegenerate_cfg(max_vars=4))
    S0 = draw(st.sampled_from([x for x in ["T", "Z", "S", "X", "Y", "W"] if x not in spec["V"]]))
    return {"cfg": spec, "start": S0, "n": draw(st.sampled_from([3, 4]))}


def ex_notebooks(tier):
    names = sorted(os.path.basename(p) for p in glob.glob(os.path.join(NOTEBOOKS, "with-answers", "*.ipynb")))
    return ("the code cells of all %d shipped notebooks in notebooks/with-answers" % len(names), ({"notebook": n} for n in names))


R0 = "(one case in three is preceded by unsuccessful calls of the same checker, as in a session with earlier attempts) reference object -> file -> make_notebook.apply_command -> checker of the template with the template's arguments; required: first output line OK; "
def with_prelude(run):
    def wrapped(case):
        PRELUDE[0] = bool(case.get("prelude"))
        try:
            return run(case)
        finally:
            PRELUDE[0] = False
    return wrapped


def cases_with_prelude(strategy):
    @st.composite
    def s(draw, tier):
        case = draw(strategy(tier))
        case["prelude"] = draw(st.integers(0, 2)) == 0
        return case
    return s


CLAUSES = [
    Clause("for_language", cases_with_prelude(for_language_cases), with_prelude(run_for_language), quick=500, thorough=4000,
           rule=R0 + "six kinds, reference rendered in generated layouts, word list from generate(file, length), answer = load(file); non-trivial: >= 2 words"),
    Clause("nfa2dfa", cases_with_prelude(nfa2dfa_cases), with_prelude(run_nfa2dfa), quick=500, thorough=4000, rule=R0 + "random NFAs (printable eps, generated layouts); non-trivial: >= 2 DFA states"),
    Clause("dfa2regexp", cases_with_prelude(dfa2regexp_cases), with_prelude(run_dfa2regexp), quick=150, thorough=1200, rule=R0 + "DFAs with <= 3 states over letter alphabets, lengths 4-6 and the default 8; non-trivial: >= 2 states"),
    Clause("product", cases_with_prelude(product_cases), with_prelude(run_product), quick=400, thorough=3000, rule=R0 + "pairs of DFAs over a common alphabet (overlapping or disjoint names) x 3 operations"),
    Clause("unary", cases_with_prelude(unary_cases), with_prelude(run_unary), quick=600, thorough=5000, rule=R0 + "DFAs (also inflated, with unreachable states) x {complement, reverse, minimal (quotient), minimal (Hopcroft)}"),
    Clause("cyk", cases_with_prelude(cyk_cases), with_prelude(run_cyk), quick=400, thorough=3000, rule=R0 + "CNF grammars in simple format x words of length 1-5"),
    Clause("derivation", cases_with_prelude(derivation_cases), with_prelude(run_derivation), quick=400, thorough=3000, rule=R0 + "CNF grammars x generated words x {leftmost, rightmost, any}"),
    Clause("chomsky", cases_with_prelude(chomsky_cases), with_prelude(run_chomsky), quick=200, thorough=1500, rule=R0 + "non-degenerate simple grammars x phases 1..5 with a fresh start-variable name; non-trivial: >= 3 phases change the grammar"),
    Clause("generated_notebooks", generated_cases, run_generated, quick=120, thorough=1000,
           rule="2-3 exercises (DFA/NFA for a language, minimal DFA, NFA to DFA) pass through notebooks/make_notebook.py one after the other in one process - reference file with optional "
                "'%% key = value' tags, paragraph with optional tags, parse_paragraph, make_notebook with answers - and every generated notebook is executed: its checker cells print OK; "
                "non-trivial: >= 2 exercises with a checker cell each"),
    Clause("shipped_notebooks", None, run_notebook, quick=0, thorough=0, exhaustive=ex_notebooks, rule="every check cell of the shipped with-answers notebooks prints OK when executed in-process"),
]
KNOWN_PREDICATES = {}

# coverage-guided second driver (atheris / libFuzzer through Hypothesis' fuzz_one_input) for the core clauses: (clause, quick runs, thorough runs)
from harness.covfuzz import cov_clauses  # noqa: E402
CLAUSES += cov_clauses('C13', CLAUSES, [('for_language', 1000, 6666), ('unary', 1000, 6666)])
