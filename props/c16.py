"""C16 - printing an object and parsing the text returns the same object."""
from hypothesis import strategies as st

from harness.engine import Clause, Fail, lib
from ref import fa, regex as RX, text as RT, cfg as RC
from gen import fa as G, text as GX, regex as GR, cfg as GC
from bridge import fa as B, pda as BP, tm as BT, regex as BR, cfg as BC

from gambatools.dfa_algorithms import print_dfa, parse_dfa
from gambatools.nfa_algorithms import print_nfa, parse_nfa
from gambatools.pda_algorithms import print_pda, parse_pda
from gambatools.tm_algorithms import print_tm, parse_tm
from gambatools.regexp import print_regexp, print_regexp_simple
from gambatools.regexp_parser import parse_regexp
from gambatools.regexp_simple_parser import parse_simple_regexp
from gambatools.cfg_algorithms import cfg_print_simple, parse_simple_cfg

ASSUMPTIONS = [
    "single-character symbols, state names \\w+, printable epsilon/blank symbol ('' cannot be written in a file)",
    "regular expressions: identifier symbols [a-zA-Z_][a-zA-Z_0-9]* for the dotted syntax, single letters for the simple syntax ('0'/'1' are reserved)",
    "grammars in simple format: single upper-case variables, single lower-case terminals, the start variable heads the first rule, "
    "Sigma = terminals that occur, every variable has a rule",
]

MK = {"dfa": B.mk_dfa, "nfa": B.mk_nfa, "pda": BP.mk_pda, "tm": BT.mk_tm}
SNAP = {"dfa": B.snap_dfa, "nfa": B.snap_nfa, "pda": BP.snap_pda, "tm": BT.snap_tm}
PRINT = {"dfa": print_dfa, "nfa": print_nfa, "pda": print_pda, "tm": print_tm}
PARSE = {"dfa": parse_dfa, "nfa": parse_nfa, "pda": parse_pda, "tm": parse_tm}


def run_automaton(case):
    kind, spec = case["kind"], case["spec"]
    obj = MK[kind](spec)
    text = lib(PRINT[kind], obj)
    if not isinstance(text, str):
        raise Fail("print_type", "print_%s returned %r" % (kind, type(text)))
    back = lib(PARSE[kind], text)
    got = RT.canon(kind, SNAP[kind](back))
    want = RT.canon(kind, spec)
    if got != want:
        diff = [k for k in want if got.get(k) != want[k]]
        raise Fail("roundtrip_" + kind, "parse_%s(print_%s(x)) differs from x in %s: got %r, expected %r" % (kind, kind, diff, {k: got.get(k) for k in diff}, {k: want[k] for k in diff}))
    cls = [kind]
    if kind != "tm" and not spec["F"]:
        cls.append("F_empty")
    if not spec["S"]:
        cls.append("empty_alphabet")
    lab = RT.labels(kind, spec)
    pairs = {}
    for p, q, l in lab:
        pairs[p, q] = pairs.get((p, q), 0) + 1
    multi = any(v > 1 for v in pairs.values())
    if multi:
        cls.append("several_labels_per_edge")
    if any(v >= 9 for v in pairs.values()):
        cls.append("nine_or_more_labels_on_an_edge")
    if RT.used_states(kind, spec) != set(spec["Q"]):
        cls.append("isolated_states")
    return {"nt": len(spec["Q"]) >= 2 and multi, "cls": cls, "out": {"text_lines": text.count("\n") + 1}}


def needs_parens(t):
    k = t[0]
    if k == "*":
        return t[1][0] in "+.*" or needs_parens(t[1])
    if k == ".":
        return t[1][0] == "+" or t[2][0] == "+" or needs_parens(t[1]) or needs_parens(t[2])
    if k == "+":
        return needs_parens(t[1]) or needs_parens(t[2])
    return False


def run_regexp(case):
    t, syntax = case["re"], case["syntax"]
    r = BR.mk(t)
    if syntax == "str":
        pr, pa = str, parse_regexp
    elif syntax == "dotted":
        pr, pa = print_regexp, parse_regexp
    else:
        pr, pa = print_regexp_simple, parse_simple_regexp
    text = lib(pr, r)
    back = lib(pa, text)
    try:
        t2 = BR.snap(back)
    except TypeError as e:
        raise Fail("reparse_type", "parsing %r gives %s" % (text, e))
    S = sorted(RX.symbols(t) | RX.symbols(t2)) or ["a"]
    w = fa.equiv(RX.to_dfa(t, S), RX.to_dfa(t2, S))
    if w is not None:
        raise Fail("regexp_language_" + syntax, "printed form %r re-parses to an expression with a different language (word %r)" % (text, w))
    text2 = lib(pr, back)
    if text2 != text:
        raise Fail("regexp_print_" + syntax, "printed form %r re-parses to an expression printed as %r" % (text, text2))
    return {"nt": needs_parens(t), "cls": [syntax], "out": {"text": text[:80]}}


def run_cfg(case):
    spec = case["cfg"]
    Gr = BC.mk_cfg(spec, epsilon=case.get("eps"))
    text = lib(cfg_print_simple, Gr)
    back = lib(parse_simple_cfg, text)
    snap = BC.snap_cfg(back)
    want = BC.canon(spec)
    if {"V": sorted(want["V"]), "T": sorted(want["T"]), "S": want["S"], "R": sorted(map(repr, want["R"]))} != \
            {"V": snap["V"], "T": snap["T"], "S": snap["S"], "R": sorted(map(repr, snap["R"]))}:
        raise Fail("roundtrip_cfg", "parse_simple_cfg(cfg_print_simple(G)) differs from G: text %r gives %r" % (text, snap))
    if not (lib(lambda: back == Gr)):
        raise Fail("roundtrip_cfg_eq", "the re-parsed grammar is not equal (CFG.__eq__) to the original; text %r" % text)
    has_eps = any(not rhs for _, rhs in spec["R"])
    return {"nt": has_eps and len(spec["V"]) >= 2, "cls": ["eps_alternative"] if has_eps else [], "out": {"text": text[:80]}}


@st.composite
def automaton_cases(draw, tier):
    kind = draw(st.sampled_from(["dfa", "nfa", "pda", "tm"]))
    if draw(st.integers(0, 7)) == 0:
        return {"kind": kind, "spec": draw(GX.wide_text_specs(kind)), "wide": True}
    return {"kind": kind, "spec": draw(GX.text_specs(kind, max_states=4 if tier == "quick" else 5))}


@st.composite
def regexp_cases(draw, tier):
    syntax = draw(st.sampled_from(["str", "dotted", "simple"]))
    syms = ["a", "b", "c"] if syntax == "simple" else draw(st.sampled_from([["a", "b"], ["x1", "y_2", "ab"], ["a", "_q", "Zz9"]]))
    return {"re": draw(GR.trees(syms, max_leaves=10)), "syntax": syntax}


@st.composite
def cfg_cases(draw, tier):
    spec = draw(GC.cfg_specs(max_vars=4, terms=("a", "b"), simple=True, allow_norule=False, max_len=3))
    used = sorted({x for _, rhs in spec["R"] for x in rhs if x not in spec["V"]})
    spec["T"] = used
    if draw(st.booleans()):
        # the rules of one variable need not be adjacent in the rule list (in-place transformations append rules); the start variable keeps the first rule
        first = next(i for i, r in enumerate(spec["R"]) if r[0] == spec["S"])
        rest = spec["R"][:first] + spec["R"][first + 1:]
        spec["R"] = [spec["R"][first]] + list(draw(st.permutations(rest)))
    # the grammar object's own empty-word symbol: the default, or '_', or a letter that is not a terminal
    return {"cfg": spec, "eps": draw(st.sampled_from([None, None, "_", "e", "z"]))}


def ex_regexp(tier):
    n = 5 if tier == "quick" else 6
    def gen():
        for t in GR._all(1, ("a", "b")):
            pass
        for t in GR.all_trees(n, atoms=("a", "b")):
            for syntax in ("str", "dotted", "simple"):
                yield {"re": t, "syntax": syntax}
    return ("all expression trees with <= %d nodes over atoms {0,1,a,b} x three printers" % n, gen())


CLAUSES = [
    Clause("automaton", automaton_cases, run_automaton, quick=1500, thorough=10000,
           rule="representable DFA/NFA/PDA/TM specs (F empty, empty alphabets, isolated states, several labels per edge, printable eps/blank) -> library object -> "
                "print -> parse -> snapshot, compared field by field with the spec; non-trivial: >= 2 states and an edge with several labels"),
    Clause("regexp", regexp_cases, run_regexp, quick=1200, thorough=8000, exhaustive=ex_regexp,
           rule="expression trees x {str(), print_regexp -> parse_regexp; print_regexp_simple -> parse_simple_regexp}: same language (derivative DFAs, exact) and identical "
                "printed form after re-parsing; non-trivial: the tree needs parentheses"),
    Clause("cfg", cfg_cases, run_cfg, quick=800, thorough=6000,
           rule="simple-format grammars whose variables all have rules: cfg_print_simple -> parse_simple_cfg equal to the original by own comparison and by CFG.__eq__; "
                "non-trivial: an eps alternative and >= 2 variables"),
]
KNOWN_PREDICATES = {}

# coverage-guided second driver (atheris / libFuzzer through Hypothesis' fuzz_one_input) for the core clauses: (clause, quick runs, thorough runs)
from harness.covfuzz import cov_clauses  # noqa: E402
CLAUSES += cov_clauses('C16', CLAUSES, [('automaton', 3000, 20000), ('regexp', 2000, 13333), ('cfg', 2000, 13333)])
