"""C05 - regexp matching and simplification follow the denotational semantics."""
from hypothesis import strategies as st

from harness.engine import Clause, Fail, lib
from ref import fa, regex as RX
from gen import fa as G, regex as GR
from bridge import regex as BR

from gambatools.regexp_algorithms import regexp_accepts_word, regexp_simplify

ASSUMPTIONS = ["symbols are single characters or identifiers of several characters (a symbol s denotes the language {s}); expressions are built from Zero, One, Symbol, Sum, Concat, Iteration objects",
               "size = number of nodes of the expression tree"]


def shape_classes(t):
    cls = set()

    def go(x, under_binary):
        k = x[0]
        if k in "01" and under_binary:
            cls.add("const_under_binary")
        if k == "*":
            if x[1][0] == "*":
                cls.add("nested_star")
            if RX.nullable(RX.norm(x[1])):
                cls.add("star_of_nullable")
            go(x[1], False)
        elif k in "+.":
            go(x[1], True)
            go(x[2], True)
    go(t, False)
    return sorted(cls)


def run_match(case):
    t = case["re"]
    r = BR.mk_shared(t) if case.get("shared") else BR.mk(t)
    S = sorted(RX.symbols(t) | set(case.get("extra", [])))
    L = min(G.word_bound(S, cap=40), case.get("L", 8))
    ws = G.all_words(S, L) + list(case.get("words", []))
    acc = 0
    for w in ws:
        got = lib(regexp_accepts_word, r, w)
        want = RX.matches(t, w)
        if got is not want:
            raise Fail("regexp_accepts_word", "regexp_accepts_word(%s, %r) = %r, denotation says %r" % (RX.render_full(t), w, got, want), word=w)
        acc += want
    if BR.snap(r) != t:
        raise Fail("mutates_argument", "the expression was changed by matching")
    cls = shape_classes(t) + (["shared_subterm_objects"] if case.get("shared") else [])
    return {"nt": bool(shape_classes(t)) and 0 < acc < len(ws), "cls": cls, "out": {"words": len(ws), "accepted": acc}}


def run_simplify(case):
    t = case["re"]
    r = BR.mk_shared(t) if case.get("shared") else BR.mk(t)
    res = lib(regexp_simplify, r)
    t2 = BR.snap(res)
    if BR.snap(r) != t:
        raise Fail("mutates_argument", "regexp_simplify changed its argument")
    S = sorted(RX.symbols(t) | RX.symbols(t2)) or ["a"]
    w = fa.equiv(RX.to_dfa(t, S), RX.to_dfa(t2, S))
    if w is not None:
        raise Fail("language", "simplify(%s) = %s differs on word %r" % (RX.render_full(t), RX.render_full(t2), w), word=w)
    if RX.size(t2) > RX.size(t):
        raise Fail("larger", "simplify(%s) = %s is larger (%d > %d nodes)" % (RX.render_full(t), RX.render_full(t2), RX.size(t2), RX.size(t)))
    cls = shape_classes(t)
    if t2 != t:
        cls.append("changed")
    return {"nt": t2 != t and RX.size(t) >= 3, "cls": cls, "out": {"size": RX.size(t), "result_size": RX.size(t2)}}


@st.composite
def match_cases(draw, tier):
    syms = draw(st.sampled_from([["a"], ["a", "b"], ["a", "b", "c"], ["0", "1"], ["ab", "a"], ["ab", "ba", "b"], ["a", "_"], ["ε", "b"]]))
    t = draw(GR.trees(syms, max_leaves=8))
    S = sorted(RX.symbols(t)) or ["a"]
    extra = draw(st.sampled_from([[], [], [], ["z"]]))
    ws = draw(st.lists(st.text(alphabet=S + extra, max_size=8), max_size=2))
    return {"re": t, "words": ws, "extra": extra, "L": 6, "shared": draw(st.integers(0, 2)) == 0}


@st.composite
def simp_cases(draw, tier):
    syms = draw(st.sampled_from([["a"], ["a", "b"], ["a", "b", "c"], ["0", "1"], ["ab", "a"], ["ab", "ba", "b"], ["a", "_"], ["ε", "b"]]))
    return {"re": draw(GR.trees(syms, max_leaves=12)), "shared": draw(st.integers(0, 2)) == 0}


def ex_match(tier):
    n = 5 if tier == "quick" else 6
    return ("all expression trees with <= %d nodes over atoms {0,1,a,b}, all words up to length 4" % n,
            ({"re": t, "words": [], "extra": [], "L": 4} for t in GR.all_trees(n)))


def ex_simp(tier):
    n = 5 if tier == "quick" else 7
    return ("all expression trees with <= %d nodes over atoms {0,1,a,b}" % n, ({"re": t} for t in GR.all_trees(n)))


CLAUSES = [
    Clause("match", match_cases, run_match, quick=2000, thorough=6000, exhaustive=ex_match,
           rule="random trees (<= 8 leaves, biased to (r*)*, (1+r)*, r.0, 0*) x all words up to a bound over the tree's symbols (+ a foreign symbol); "
                "oracle: Brzozowski derivatives; non-trivial: star over nullable operand, nested star or 0/1 under a binary operator, and both verdicts occur"),
    Clause("simplify", simp_cases, run_simplify, quick=2500, thorough=8000, exhaustive=ex_simp,
           rule="random trees (<= 12 leaves); result exactly equivalent (derivative DFAs, product walk), node count not larger, argument unchanged; "
                "non-trivial: the expression is changed by simplification"),
]
KNOWN_PREDICATES = {}

# coverage-guided second driver (atheris / libFuzzer through Hypothesis' fuzz_one_input) for the core clauses: (clause, quick runs, thorough runs)
from harness.covfuzz import cov_clauses  # noqa: E402
CLAUSES += cov_clauses('C05', CLAUSES, [('match', 4000, 26666), ('simplify', 4000, 26666)])
