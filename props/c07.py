"""C07 - CYK membership and the CYK table are exact."""
from hypothesis import strategies as st

from harness.engine import Clause, Fail, lib, lib_verbose
from ref import cfg as RC
from gen import cfg as GC
from bridge import cfg as BC

from gambatools.cfg_algorithms import cfg_accepts_word, cfg_cyk_matrix

ASSUMPTIONS = [
    "terminals are single lower-case letters, variables upper-case letters or multi-character identifiers (Terminal/Variable are str subclasses "
    "compared by value and terminal elimination names helpers symbol.upper(), so other terminals are not representable)",
    "words range over the grammar's own terminal alphabet",
]


def grammar_classes(spec):
    V = set(spec["V"])
    cls = set()
    for A, rhs in spec["R"]:
        if not rhs:
            cls.add("eps_rule")
        if len(rhs) == 1 and rhs[0] in V:
            cls.add("unit_rule")
            if rhs[0] == A:
                cls.add("self_unit")
        if len(rhs) > 2:
            cls.add("long_rule")
    red = RC.reduce(spec)
    if len(red["V"]) < len(spec["V"]):
        cls.add("useless_variables")
    return cls


def run_accepts(case):
    spec = case["cfg"]
    lib = lib_verbose if case.get("verbose") else globals()["lib"]
    G = BC.mk_cfg(spec)
    before = BC.canon(spec)
    L = case["L"]
    ws = GC.all_words(spec["T"], L)
    acc = 0
    for w in ws:
        got = lib(cfg_accepts_word, G, w)
        want = RC.accepts(spec, w)
        if got is not want:
            raise Fail("cfg_accepts_word", "cfg_accepts_word(%r) = %r, but S %s %r" % (w, got, "derives" if want else "does not derive", w), word=w)
        acc += want
    # words with a character that is not a terminal (among them the characters used to write the empty word) are not derivable
    for w in case.get("foreign", []):
        got = lib(cfg_accepts_word, G, w)
        if got is not False:
            raise Fail("cfg_accepts_word_foreign", "cfg_accepts_word(%r) = %r, but the word contains a character that is not a terminal of the grammar" % (w, got), word=w)
    if BC.snap_cfg(G) != before:
        raise Fail("mutates_argument", "cfg_accepts_word changed the grammar")
    alt = case.get("alt_start")
    if alt is not None and alt in spec["V"] and alt != spec["S"]:
        # the same rules with another start variable, queried in the same process right after the first grammar
        spec2 = dict(spec, S=alt)
        G2 = BC.mk_cfg(spec2)
        for w in ws:
            got = lib(cfg_accepts_word, G2, w)
            want = RC.accepts(spec2, w)
            if got is not want:
                raise Fail("cfg_accepts_word_other_start", "cfg_accepts_word(%r) = %r for the same rules with start variable %s (queried after start variable %s), but %s %s %r" %
                           (w, got, alt, spec["S"], alt, "derives" if want else "does not derive", w), word=w)
    cls = grammar_classes(spec)
    if RC.accepts(spec, ""):
        cls.add("nullable_start")
    return {"nt": len(spec["V"]) >= 2 and 0 < acc < len(ws), "cls": sorted(cls) + (["verbose_keyword"] if case.get("verbose") else []), "out": {"words": len(ws), "accepted": acc}}


def run_cyk(case):
    spec, w = case["cfg"], case["w"]
    lib = lib_verbose if case.get("verbose") else globals()["lib"]
    G = BC.mk_cfg(spec)
    X = lib(cfg_cyk_matrix, G, w)
    n = len(w)
    T = RC.span_table(spec, w)
    nonempty = 0
    for i in range(n):
        for j in range(i, n):
            got = set(str(x) for x in X[i, j]) if (i, j) in X else set()
            want = {A for A in spec["V"] if (A, i, j + 1) in T}
            if got != want:
                raise Fail("cyk_cell", "cell (%d,%d) of the table for %r holds %r, variables deriving %r: %r" % (i, j, w, sorted(got), w[i:j + 1], sorted(want)), cell=[i, j])
            nonempty += bool(want)
    acc = lib(cfg_accepts_word, G, w)
    if acc is not ((spec["S"], 0, n) in T):
        raise Fail("cfg_accepts_word_cnf", "cfg_accepts_word(%r) = %r on a CNF grammar, derivability says %r" % (w, acc, not acc))
    return {"nt": len(spec["V"]) >= 2 and n >= 2 and nonempty >= n + 1, "cls": ["accepted" if acc else "rejected"] + (["verbose_keyword"] if case.get("verbose") else []), "out": {"n": n, "nonempty_cells": nonempty}}


@st.composite
def accept_cases(draw, tier):
    two = draw(st.integers(0, 2)) > 0
    if draw(st.integers(0, 9)) == 0:
        spec = draw(GC.numbered_cfg_specs(terms=("a", "b") if two else ("a",)))
    elif draw(st.integers(0, 4)) == 0:
        spec = draw(GC.unit_chain_specs(terms=("a", "b") if two else ("a",)))
    else:
        spec = draw(GC.cfg_specs(max_vars=4 if tier == "quick" else 5, terms=("a", "b") if two else ("a",), simple=draw(st.booleans()),
                                 max_len=6 if draw(st.integers(0, 3)) == 0 else 4))
    alt = spec["V"][draw(st.integers(0, len(spec["V"]) - 1))] if draw(st.booleans()) else None
    foreign = []
    if draw(st.booleans()):
        ws = sorted(w for w in RC.lang_upto(spec, 4) if w)[:6] or ["a"]
        for _ in range(draw(st.integers(1, 3))):
            w = ws[draw(st.integers(0, len(ws) - 1))]
            ch = draw(st.sampled_from([c for c in ["_", "ε", "z", " "] if c not in spec["T"]]))
            i = draw(st.integers(0, len(w)))
            foreign.append(w[:i] + ch + w[i:])
    return {"cfg": spec, "L": 4 if two else 6, "alt_start": alt, "id_offset": draw(st.integers(0, 14)), "foreign": foreign, "verbose": draw(st.integers(0, 4)) == 0}


@st.composite
def cyk_cases(draw, tier):
    spec = draw(st.one_of(GC.cnf_specs(max_vars=4, max_rules=10), GC.cnf_specs(max_vars=4, max_rules=10), GC.multichar_cnf_specs()))
    w = draw(st.text(alphabet=spec["T"], min_size=1, max_size=7))
    return {"cfg": spec, "w": w, "verbose": draw(st.integers(0, 4)) == 0}


def derive_long_word(draw, spec, target):
    """A word of about `target` letters generated by the grammar itself (top-down, productive alternatives only); None if the start variable is unproductive."""
    V = set(spec["V"])
    short = {}
    changed = True
    while changed:                      # length of a shortest word per variable
        changed = False
        for A, rhs in spec["R"]:
            if all((x not in V) or (x in short) for x in rhs):
                k = sum(1 if x not in V else short[x] for x in rhs)
                if A not in short or k < short[A]:
                    short[A] = k
                    changed = True
    if spec["S"] not in short:
        return None
    form = [spec["S"]]
    size = 1
    guard = 0
    rnd = draw(st.randoms(use_true_random=False))        # Hypothesis-managed (replayable) source for the many small choices of one derivation
    while any(x in V for x in form) and guard < 400:
        guard += 1
        idxs = [i for i, x in enumerate(form) if x in V]
        i = idxs[rnd.randrange(len(idxs))]
        alts = [rhs for A, rhs in spec["R"] if A == form[i] and all((x not in V) or (x in short) for x in rhs)]
        grow = [r for r in alts if len(r) == 2]
        deeper = [r for r in grow if any(any(A == x and len(r2) == 2 for A, r2 in spec["R"]) for x in r)]
        grow = deeper or grow
        if size < target and grow:
            rhs = grow[rnd.randrange(len(grow))]
        else:
            rhs = min(alts, key=lambda r: sum(1 if x not in V else short[x] for x in r))
        form[i:i + 1] = rhs
        size += len(rhs) - 1
    if any(x in V for x in form):
        return None
    return "".join(form)


def cnf_templates(draw):
    """Textbook languages in CNF (the start variable does not occur on a right-hand side), variables renamed, rules shuffled."""
    k = draw(st.integers(0, 2))
    if k == 0:      # non-empty balanced words over a=( b=)
        R = [["S", ["A", "T"]], ["S", ["A", "B"]], ["S", ["D", "D"]], ["D", ["A", "T"]], ["D", ["A", "B"]], ["D", ["D", "D"]], ["T", ["D", "B"]], ["A", ["a"]], ["B", ["b"]]]
    elif k == 1:    # a^n b^n, n >= 1
        R = [["S", ["A", "T"]], ["S", ["A", "B"]], ["D", ["A", "T"]], ["D", ["A", "B"]], ["T", ["D", "B"]], ["A", ["a"]], ["B", ["b"]]]
    else:           # non-empty palindromes over {a,b}
        R = [["S", ["A", "X"]], ["S", ["B", "Y"]], ["S", ["A", "A"]], ["S", ["B", "B"]], ["S", ["a"]], ["S", ["b"]],
             ["P", ["A", "X"]], ["P", ["B", "Y"]], ["P", ["A", "A"]], ["P", ["B", "B"]], ["P", ["a"]], ["P", ["b"]],
             ["X", ["P", "A"]], ["Y", ["P", "B"]], ["A", ["a"]], ["B", ["b"]]]
    old = sorted({A for A, _ in R})
    new = draw(st.lists(st.sampled_from(GC.UPPER), min_size=len(old), max_size=len(old), unique=True))
    m = dict(zip(old, new))
    R = [[m[A], [m.get(x, x) for x in rhs]] for A, rhs in R]
    start = [r for r in R if r[0] == m["S"]]
    rest = [r for r in R if r[0] != m["S"]]
    if draw(st.booleans()):
        rest = list(draw(st.permutations(rest)))
    return {"V": [m[v] for v in old if v == "S"] + [m[v] for v in old if v != "S"], "T": ["a", "b"], "R": start + rest, "S": m["S"]}


@st.composite
def long_cases(draw, tier):
    if draw(st.booleans()):
        spec = cnf_templates(draw)
    else:
        spec = draw(st.one_of(GC.recursive_cnf_specs(), GC.mutual_recursion_cnf_specs(), GC.cnf_specs(max_vars=5, max_rules=12, start_eps=False)))
    target = draw(st.sampled_from([24, 20, 16, 12, 10, 8] + ([] if tier == "quick" else [32, 40])))
    w = derive_long_word(draw, spec, target)
    if w is None or len(w) > 60:
        w = draw(st.text(alphabet=spec["T"], min_size=8, max_size=target))
    elif draw(st.booleans()):
        # a near miss: one letter changed, dropped or doubled
        i = draw(st.integers(0, len(w) - 1))
        k = draw(st.integers(0, 2))
        other = spec["T"][draw(st.integers(0, len(spec["T"]) - 1))]
        w = w[:i] + (other if k == 0 else ("" if k == 1 else w[i] * 2)) + w[i + 1:]
    return {"cfg": spec, "w": w or spec["T"][0], "verbose": draw(st.integers(0, 5)) == 0}


def run_long(case):
    r = run_cyk(case)
    n = len(case["w"])
    return {"nt": n >= 10 and r["out"]["nonempty_cells"] >= n + 1, "cls": r["cls"] + ["len_%s" % ("8_15" if n < 16 else ("16_31" if n < 32 else "32_plus"))], "out": r["out"]}


CLAUSES = [
    Clause("accepts", accept_cases, run_accepts, quick=350, thorough=3000,
           rule="arbitrary grammars (1-5 variables, eps rules, unit cycles, useless variables, variables without rules) x all words up to length 4 "
                "(6 for one terminal); oracle: least-fixpoint span table; non-trivial: >= 2 variables and both verdicts occur"),
    Clause("cyk_table", cyk_cases, run_cyk, quick=1200, thorough=10000,
           rule="CNF grammars by construction x words of length 1-7; every cell (i,j) compared with {A : A =>* w[i..j]} from the span fixpoint; "
                "non-trivial: >= 2 variables, |w| >= 2 and more than n non-empty cells"),
]
CLAUSES.append(Clause("long_words", long_cases, run_long, quick=300, thorough=3000,
                      rule="recursive CNF grammars x words of 8-24 (40 thorough) letters derived by the grammar itself, half of them with one letter changed, dropped or doubled; "
                           "the whole CYK table and the membership answer compared with the span fixpoint; non-trivial: >= 10 letters and more than n non-empty cells"))
from props import workbench as WB   # noqa: E402

CLAUSES.append(Clause("object_history", WB.cfg_programs, WB.run_cfg, quick=300, thorough=3000, rule=WB.CFG_RULE))
KNOWN_PREDICATES = {}

# coverage-guided second driver (atheris / libFuzzer through Hypothesis' fuzz_one_input) for the core clauses: (clause, quick runs, thorough runs)
from harness.covfuzz import cov_clauses  # noqa: E402
CLAUSES += cov_clauses('C07', CLAUSES, [('accepts', 1000, 6666), ('cyk_table', 2000, 13333)])
