"""C07 - CYK membership and the CYK table are exact."""
from hypothesis import strategies as st

from harness.engine import Clause, Fail, lib
from ref import cfg as RC
from gen import cfg as GC
from bridge import cfg as BC

from gambatools.cfg_algorithms import cfg_accepts_word, cfg_cyk_matrix

ASSUMPTIONS = [
    "terminals are single lower-case letters, variables upper-case letters or multi-character identifiers (Terminal/Variable are str subclasses "
    "compared by value and terminal elimination names helpers symbol.upper(), so other terminals are not representable)",
    "words range over the grammar's own terminal alphabet",
]


def grammar_classes(spec):
    V = set(spec["V"])
    cls = set()
    for A, rhs in spec["R"]:
        if not rhs:
            cls.add("eps_rule")
        if len(rhs) == 1 and rhs[0] in V:
            cls.add("unit_rule")
            if rhs[0] == A:
                cls.add("self_unit")
        if len(rhs) > 2:
            cls.add("long_rule")
    red = RC.reduce(spec)
    if len(red["V"]) < len(spec["V"]):
        cls.add("useless_variables")
    return cls


def run_accepts(case):
    spec = case["cfg"]
    G = BC.mk_cfg(spec)
    before = BC.canon(spec)
    L = case["L"]
    ws = GC.all_words(spec["T"], L)
    acc = 0
    for w in ws:
        got = lib(cfg_accepts_word, G, w)
        want = RC.accepts(spec, w)
        if got is not want:
            raise Fail("cfg_accepts_word", "cfg_accepts_word(%r) = %r, but S %s %r" % (w, got, "derives" if want else "does not derive", w), word=w)
        acc += want
    if BC.snap_cfg(G) != before:
        raise Fail("mutates_argument", "cfg_accepts_word changed the grammar")
    alt = case.get("alt_start")
    if alt is not None and alt in spec["V"] and alt != spec["S"]:
        # the same rules with another start variable, queried in the same process right after the first grammar
        spec2 = dict(spec, S=alt)
        G2 = BC.mk_cfg(spec2)
        for w in ws:
            got = lib(cfg_accepts_word, G2, w)
            want = RC.accepts(spec2, w)
            if got is not want:
                raise Fail("cfg_accepts_word_other_start", "cfg_accepts_word(%r) = %r for the same rules with start variable %s (queried after start variable %s), but %s %s %r" %
                           (w, got, alt, spec["S"], alt, "derives" if want else "does not derive", w), word=w)
    cls = grammar_classes(spec)
    if RC.accepts(spec, ""):
        cls.add("nullable_start")
    return {"nt": len(spec["V"]) >= 2 and 0 < acc < len(ws), "cls": sorted(cls), "out": {"words": len(ws), "accepted": acc}}


def run_cyk(case):
    spec, w = case["cfg"], case["w"]
    G = BC.mk_cfg(spec)
    X = lib(cfg_cyk_matrix, G, w)
    n = len(w)
    T = RC.span_table(spec, w)
    nonempty = 0
    for i in range(n):
        for j in range(i, n):
            got = set(str(x) for x in X[i, j]) if (i, j) in X else set()
            want = {A for A in spec["V"] if (A, i, j + 1) in T}
            if got != want:
                raise Fail("cyk_cell", "cell (%d,%d) of the table for %r holds %r, variables deriving %r: %r" % (i, j, w, sorted(got), w[i:j + 1], sorted(want)), cell=[i, j])
            nonempty += bool(want)
    acc = lib(cfg_accepts_word, G, w)
    if acc is not ((spec["S"], 0, n) in T):
        raise Fail("cfg_accepts_word_cnf", "cfg_accepts_word(%r) = %r on a CNF grammar, derivability says %r" % (w, acc, not acc))
    return {"nt": len(spec["V"]) >= 2 and n >= 2 and nonempty >= n + 1, "cls": ["accepted" if acc else "rejected"], "out": {"n": n, "nonempty_cells": nonempty}}


@st.composite
def accept_cases(draw, tier):
    two = draw(st.integers(0, 2)) > 0
    if draw(st.integers(0, 4)) == 0:
        spec = draw(GC.unit_chain_specs(terms=("a", "b") if two else ("a",)))
    else:
        spec = draw(GC.cfg_specs(max_vars=4 if tier == "quick" else 5, terms=("a", "b") if two else ("a",), simple=draw(st.booleans()),
                                 max_len=6 if draw(st.integers(0, 3)) == 0 else 4))
    alt = spec["V"][draw(st.integers(0, len(spec["V"]) - 1))] if draw(st.booleans()) else None
    return {"cfg": spec, "L": 4 if two else 6, "alt_start": alt}


@st.composite
def cyk_cases(draw, tier):
    spec = draw(st.one_of(GC.cnf_specs(max_vars=4, max_rules=10), GC.cnf_specs(max_vars=4, max_rules=10), GC.multichar_cnf_specs()))
    w = draw(st.text(alphabet=spec["T"], min_size=1, max_size=7))
    return {"cfg": spec, "w": w}


CLAUSES = [
    Clause("accepts", accept_cases, run_accepts, quick=350, thorough=3000,
           rule="arbitrary grammars (1-5 variables, eps rules, unit cycles, useless variables, variables without rules) x all words up to length 4 "
                "(6 for one terminal); oracle: least-fixpoint span table; non-trivial: >= 2 variables and both verdicts occur"),
    Clause("cyk_table", cyk_cases, run_cyk, quick=1200, thorough=10000,
           rule="CNF grammars by construction x words of length 1-7; every cell (i,j) compared with {A : A =>* w[i..j]} from the span fixpoint; "
                "non-trivial: >= 2 variables, |w| >= 2 and more than n non-empty cells"),
]
from props import workbench as WB   # noqa: E402

CLAUSES.append(Clause("object_history", WB.cfg_programs, WB.run_cfg, quick=300, thorough=3000, rule=WB.CFG_RULE))
KNOWN_PREDICATES = {}
