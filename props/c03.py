"""C03 - subset construction yields an equivalent total DFA."""
from hypothesis import strategies as st

from harness.engine import Clause, Fail, lib
from ref import fa
from gen import fa as G
from bridge import fa as B

from gambatools.dfa import DFA
from gambatools.nfa_algorithms import nfa_to_dfa

ASSUMPTIONS = [
    "NFA transition maps in the three representations the library produces; state names \\w+ or labels of earlier constructions ({q0,q1}, (q0,q1)); single-character symbols; "
    "the meaning of the initial state's label is only checked for plain names",
    "names of non-initial result states and the number of result states are not constrained (not stated by the property)",
]


def parse_label(label):
    """'{a,b}' -> {'a','b'};  '{}' -> set()."""
    if not (label.startswith("{") and label.endswith("}")):
        return None
    inner = label[1:-1]
    return set(inner.split(",")) if inner else set()


def run(case):
    spec = case["nfa"]
    N = B.mk_nfa(spec)
    before = B.canon(spec)
    if case.get("logging"):
        import contextlib
        import io
        from gambatools.global_settings import GambaTools
        old = GambaTools.enable_logging
        GambaTools.enable_logging = True
        try:
            with contextlib.redirect_stdout(io.StringIO()):
                D = lib(nfa_to_dfa, N)
        finally:
            GambaTools.enable_logging = old
    else:
        D = lib(nfa_to_dfa, N)
    if not isinstance(D, DFA):
        raise Fail("type", "nfa_to_dfa returned %r" % type(D))
    snap = B.snap_dfa(D)
    err = fa.valid_dfa_snapshot(snap)
    if err:
        raise Fail("invalid_dfa", err)
    if sorted(snap["S"]) != sorted(spec["S"]):
        raise Fail("alphabet", "result alphabet %r, NFA alphabet %r" % (snap["S"], spec["S"]))
    R = fa.rdfa(snap)
    ref = fa.determinise(spec)
    w = fa.equiv(R, ref)
    if w is not None:
        raise Fail("language", "result and NFA differ on word %r (NFA accepts: %r)" % (w, fa.nfa_accepts(spec, w)), word=w)
    init = parse_label(snap["q0"])
    want = fa.eclose(spec, {spec["q0"]})
    plain_names = all(c not in q for q in spec["Q"] for c in "{},")
    if plain_names and init != want:
        raise Fail("initial_state", "initial state %r does not stand for the eps-closure %r of the NFA's initial state" % (snap["q0"], sorted(want)))
    reach = fa.reachable(R)
    if len(reach) != len(snap["Q"]):
        raise Fail("unreachable_state", "result states %r are unreachable" % sorted(set(snap["Q"]) - set(reach)))
    if B.snap_nfa(N) != before:
        raise Fail("mutates_argument", "the argument NFA was changed")
    eps = spec["eps"]
    keys = {}
    for p, a, q in spec["d"]:
        keys.setdefault((p, a), set()).add(q)
    nondet = any(a == eps or len(v) > 1 for (p, a), v in keys.items())
    cls = []
    if not spec["S"]:
        cls.append("empty_alphabet")
    if any(x == "{}" for x in snap["Q"]):
        cls.append("dead_state")
    if not spec["F"]:
        cls.append("F_empty")
    return {"nt": (nondet or case.get("large")) and len(snap["Q"]) >= 2, "cls": cls, "out": {"dfa_states": len(snap["Q"])}}


@st.composite
def cases(draw, tier):
    spec = draw(G.mixed_nfa_specs(max_states=5 if tier == "quick" else 6))
    if draw(st.integers(0, 5)) == 0:
        # state names as earlier constructions produce them (subset labels, pairs): {q0}, {q0,q1}, {}, (q0,q1)
        labels = ["{q0}", "{q0,q1}", "{}", "{q1}", "(q0,q1)", "{q0,q1,q2}", "{{q0},{q1}}", "(q1,q0)"]
        m = dict(zip(spec["Q"], draw(st.permutations(labels))[:len(spec["Q"])])) if len(spec["Q"]) <= len(labels) else {}
        if m:
            spec = {"Q": [m[q] for q in spec["Q"]], "S": spec["S"], "d": [[m[p], a, m[q]] for p, a, q in spec["d"]], "q0": m[spec["q0"]],
                    "F": [m[q] for q in spec["F"]], "eps": spec["eps"], "rep": spec["rep"]}
    return {"nfa": spec, "logging": draw(st.integers(0, 5)) == 0}


def ex(tier):
    if tier == "quick":
        return ("all NFAs with 2 states over {a} with eps-moves (1024)", ({"nfa": s} for s in G.all_nfas(2, ["a"])))
    def gen():
        for s in G.all_nfas(2, ["a"]):
            yield {"nfa": s}
        for s in G.all_nfas(2, ["a", "b"], eps="", rep="dd_lambda"):
            yield {"nfa": s}
    return ("all NFAs with 2 states over {a} and over {a,b} with eps-moves (1024 + 16384)", gen())


def large_spec(kind, size, pre, eps, rep):
    """Structured large inputs: the subset automaton has a simple path of 1000+ states (deep recursion / long worklists)."""
    if kind == "kth_from_end":
        k = size
        Q = ["%s%d" % (pre, i) for i in range(k + 1)]
        d = [[Q[0], "a", Q[0]], [Q[0], "b", Q[0]], [Q[0], "a", Q[1]]] + [[Q[i], x, Q[i + 1]] for i in range(1, k) for x in "ab"]
        return {"Q": Q, "S": ["a", "b"], "d": d, "q0": Q[0], "F": [Q[k]], "eps": eps, "rep": rep}
    n = size
    Q = ["%s%d" % (pre, i) for i in range(n)]
    if kind == "chain":
        d = [[Q[i], "a", Q[i + 1]] for i in range(n - 1)]
        return {"Q": Q, "S": ["a"], "d": d, "q0": Q[0], "F": [Q[n - 1], Q[n // 2]], "eps": eps, "rep": rep}
    d = [[Q[i], eps, Q[i + 1]] for i in range(n - 1)] + [[Q[n - 1], "a", Q[0]]]
    return {"Q": Q, "S": ["a"], "d": d, "q0": Q[0], "F": [Q[n // 3]], "eps": eps, "rep": rep}


def ex_large(tier):
    ks = [8, 9, 10] if tier == "quick" else [8, 9, 10, 11, 12]
    ns = [300, 1100] if tier == "quick" else [300, 700, 1100, 1500, 2500]
    combos = [("kth_from_end", k) for k in ks] + [("chain", n) for n in ns] + [("eps_chain", n) for n in ns]
    def gen():
        for i, (kind, size) in enumerate(combos):
            yield {"nfa": large_spec(kind, size, "qsn"[i % 3], ["", "ε"][i % 2], ["dd_set", "dd_lambda"][i % 2]), "large": True}
    return ("structured large NFAs: k-th symbol from the end (k in %r), symbol chains and eps-chains of %r states" % (ks, ns), gen())


CLAUSES = [
    Clause("nfa_to_dfa", cases, run, quick=1200, thorough=10000, exhaustive=ex,
           rule="random NFA specs (1-6 states, 0-3 symbols, eps-cycles, dead ends, F empty/full); result checked for validity, exact "
                "language equivalence (product walk against an independent subset construction), initial-state label and reachability; "
                "non-trivial: NFA has an eps-move or a non-deterministic choice and the result has >= 2 states"),
]
CLAUSES.append(
    Clause("large", None, run, quick=0, thorough=0, exhaustive=ex_large, watchdog=300,
           rule="structured large NFAs: 'k-th symbol from the end is a' (512..8192 subset states), symbol chains and eps-chains of 300..2500 states; the same "
                "validity / exact equivalence / initial label / reachability predicates; every case is large by construction"))
from props import workbench as WB   # noqa: E402

CLAUSES.append(Clause("object_history", lambda tier: WB.fa_programs(tier, "subset"), WB.run_fa, quick=500, thorough=5000,
                      rule="(nfa_to_dfa on objects with a history: queried before, modified in place, determinised again) " + WB.FA_RULE))
KNOWN_PREDICATES = {}

# coverage-guided second driver (atheris / libFuzzer through Hypothesis' fuzz_one_input) for the core clauses: (clause, quick runs, thorough runs)
from harness.covfuzz import cov_clauses  # noqa: E402
CLAUSES += cov_clauses('C03', CLAUSES, [('nfa_to_dfa', 3000, 20000)])
