"""C10 - PDA normal forms and the PDA-to-CFG conversion preserve the language."""
import copy

from hypothesis import strategies as st

from harness.engine import Clause, Fail, lib
from ref import pda as RP, cfg as RC
from gen import pda as GP, fa as G
from bridge import pda as BP, cfg as BC

from gambatools.pda import PDA
from gambatools.cfg import CFG
from gambatools import pda_algorithms as PA

ASSUMPTIONS = [
    "PDA transition maps are defaultdict(set); the stack symbol '∅' is never used (pda_to_push_pop asserts it is free: a stated precondition); "
    "at most three of the marker candidates $@#*&!? occur in Gamma",
    "languages are compared on all words up to length L (3-4) with exact references on both sides",
]


def bound(spec):
    return 3 if len(spec["S"]) >= 2 else 4


def check_pda(res, spec, what, L, lang):
    if not isinstance(res, PDA):
        raise Fail("type", "%s returned %r" % (what, type(res)))
    snap = BP.snap_pda(res)
    err = RP.valid(snap)
    if err:
        raise Fail("invalid_pda", "%s: %s" % (what, err))
    if sorted(snap["S"]) != sorted(spec["S"]):
        raise Fail("alphabet", "%s changed the input alphabet" % what)
    after = RP.lang_upto(snap, L)
    if after != lang:
        raise Fail("language", "%s changes the language: extra %r, missing %r" % (what, sorted(after - lang, key=len)[:3], sorted(lang - after, key=len)[:3]))
    return snap


def common(spec, case=None):
    from harness.libstate import set_identifier_generators
    set_identifier_generators((case or {}).get("id_offset", 0))
    L = bound(spec)
    lang = RP.lang_upto(spec, L)
    lang0 = RP.lang_upto(spec, L, empty_stack=True)
    cls = set(GP.classes(spec))
    if lang - lang0:
        cls.add("accepts_some_word_only_with_nonempty_stack")
    if len(spec["F"]) != 1:
        cls.add("F_size_%s" % ("0" if not spec["F"] else "many"))
    if set(spec["G"]) & set("$@#"):
        cls.add("marker_symbol_in_gamma")
    nwords = len(G.all_words(spec["S"], L))
    return L, lang, cls, 0 < len(lang) < nwords


def run_one_accepting(case):
    spec = case["pda"]
    L, lang, cls, nt = common(spec, case)
    P = BP.mk_pda(spec)
    lib(PA.pda_to_one_accepting_state_in_place, P)
    snap = check_pda(P, spec, "pda_to_one_accepting_state_in_place", L, lang)
    if len(snap["F"]) != 1:
        raise Fail("one_accepting_state", "result has %d accepting states" % len(snap["F"]))
    return {"nt": nt and len(spec["F"]) != 1, "cls": sorted(cls), "out": {"words": len(lang)}}


def run_push_pop(case):
    spec = case["pda"]
    L, lang, cls, nt = common(spec, case)
    P = BP.mk_pda(spec)
    before = BP.canon(spec)
    res = lib(PA.pda_to_push_pop, P)
    snap = check_pda(res, spec, "pda_to_push_pop", L, lang)
    eps = snap["eps"]
    for p, a, u, q, v in snap["d"]:
        if (u == eps) == (v == eps):
            raise Fail("not_push_pop", "transition %r is neither a push nor a pop move" % ((p, a, u, q, v),))
    if BP.snap_pda(P) != before:
        raise Fail("mutates_argument", "pda_to_push_pop changed its argument")
    return {"nt": nt and ("noop" in cls or "replace" in cls), "cls": sorted(cls), "out": {"words": len(lang), "states": len(snap["Q"])}}


def run_empty_stack(case):
    spec = case["pda"]
    L, lang, cls, nt = common(spec, case)
    P = BP.mk_pda(spec)
    before = BP.canon(spec)
    res = lib(PA.pda_to_accept_on_empty_stack, P)
    snap = check_pda(res, spec, "pda_to_accept_on_empty_stack", L, lang)
    lang0 = RP.lang_upto(snap, L, empty_stack=True)
    if lang0 != RP.lang_upto(snap, L):
        raise Fail("accepts_with_nonempty_stack", "the result accepts %r with a non-empty stack" % sorted(RP.lang_upto(snap, L) - lang0, key=len)[:3])
    if BP.snap_pda(P) != before:
        raise Fail("mutates_argument", "pda_to_accept_on_empty_stack changed its argument")
    return {"nt": nt, "cls": sorted(cls), "out": {"words": len(lang)}}


def run_to_cfg(case):
    spec = case["pda"]
    L, lang, cls, nt = common(spec, case)
    P = BP.mk_pda(spec)
    before = BP.canon(spec)
    Gr = lib(PA.pda_to_cfg, P)
    if not isinstance(Gr, CFG):
        raise Fail("type", "pda_to_cfg returned %r" % type(Gr))
    gs = BC.snap_cfg(Gr)
    err = RC.valid(gs) or BC.typed_ok(Gr)
    if err:
        raise Fail("invalid_grammar", "pda_to_cfg: %s" % err)
    if set(gs["T"]) != set(spec["S"]):
        raise Fail("alphabet", "grammar terminals %r, PDA alphabet %r" % (gs["T"], spec["S"]))
    red = RC.reduce(gs)
    glang = RC.lang_upto(red, L)
    if glang != lang:
        raise Fail("cfg_language", "grammar and PDA differ: grammar-only %r, PDA-only %r" % (sorted(glang - lang, key=len)[:3], sorted(lang - glang, key=len)[:3]))
    if BP.snap_pda(P) != before:
        raise Fail("mutates_argument", "pda_to_cfg changed its argument")
    if lang == RP.lang_upto(spec, L, empty_stack=True) and len(spec["F"]) >= 1:
        # the PDA accepts (up to the bound) only with an empty stack: the documented parameter accepts_on_empty_stack=True must give the same language.
        # The parameter promises nothing for words accepted with a non-empty stack, so it is only used when the reference finds none up to length L + 2.
        if RP.lang_upto(spec, L + 2) == RP.lang_upto(spec, L + 2, empty_stack=True):
            G2 = lib(PA.pda_to_cfg, P, True)
            g2 = RC.lang_upto(RC.reduce(BC.snap_cfg(G2)), L)
            if g2 != lang:
                raise Fail("cfg_language_empty_stack_flag", "pda_to_cfg(P, accepts_on_empty_stack=True) and PDA differ: grammar-only %r, PDA-only %r" %
                           (sorted(g2 - lang, key=len)[:3], sorted(lang - g2, key=len)[:3]))
            cls.add("accepts_on_empty_stack_flag")
    return {"nt": nt, "cls": sorted(cls), "out": {"words": len(lang), "variables": len(gs["V"]), "rules": len(gs["R"])}}


@st.composite
def cases(draw, tier):
    spec = draw(GP.mixed_pda_specs(max_states=3, max_trans=6 if tier == "quick" else 8))
    if not spec["F"] and draw(st.booleans()):
        spec["F"] = [spec["Q"][-1]]
    return {"pda": spec, "id_offset": draw(st.integers(0, 3))}


@st.composite
def small_cases(draw, tier):
    spec = draw(st.one_of(GP.pda_specs(max_states=2, max_trans=4, max_gamma=2), GP.pda_specs(max_states=3, max_trans=5, max_gamma=2), GP.structured_pda_specs(max_noise=1)))
    if not spec["F"] and draw(st.booleans()):
        spec["F"] = [spec["Q"][-1]]
    return {"pda": spec, "id_offset": draw(st.integers(0, 3))}


RULE = ("random and structured (a^n b^n, palindromes, acceptance with non-empty stack, replace moves; with noise transitions, renamed states) PDAs; "
        "result valid and same words up to length 3-4 by the exact saturation reference; non-trivial: accepts some but not all words")
CLAUSES = [
    Clause("one_accepting", cases, run_one_accepting, quick=500, thorough=4000, rule="pda_to_one_accepting_state_in_place: " + RULE + "; exactly one accepting state"),
    Clause("push_pop", cases, run_push_pop, quick=500, thorough=4000, rule="pda_to_push_pop: " + RULE + "; every move is a push or a pop; argument unchanged"),
    Clause("empty_stack", cases, run_empty_stack, quick=500, thorough=4000, rule="pda_to_accept_on_empty_stack: " + RULE + "; result accepts only with empty stack; argument unchanged"),
    Clause("to_cfg", small_cases, run_to_cfg, quick=250, thorough=2500, rule="pda_to_cfg: " + RULE + "; grammar (reduced by the reference) generates exactly the accepted words"),
]
from props import workbench as WB   # noqa: E402

CLAUSES.append(Clause("object_history", lambda tier: WB.pda_programs(tier, "convert"), WB.run_pda, quick=300, thorough=3000,
                      rule="(conversions applied to objects with a history) " + WB.PDA_RULE))
KNOWN_PREDICATES = {}

# coverage-guided second driver (atheris / libFuzzer through Hypothesis' fuzz_one_input) for the core clauses: (clause, quick runs, thorough runs)
from harness.covfuzz import cov_clauses  # noqa: E402
CLAUSES += cov_clauses('C10', CLAUSES, [('push_pop', 1500, 10000), ('empty_stack', 1500, 10000), ('to_cfg', 800, 5000)])
