"""C12 - an exercise checker never reports OK for a wrong answer."""
import contextlib
import io
import os
import re
import tempfile

from hypothesis import strategies as st

from harness.engine import Clause, Fail, lib
from ref import fa, regex as RX, cfg as RC, pda as RP, tm as RTM, text as RT
from gen import fa as G, pda as GP, tm as GT, cfg as GC, regex as GR, text as GX, answers as GA

from gambatools.global_settings import GambaTools
from gambatools import notebook as NB
from gambatools import notebook_dfa as ND
from gambatools import notebook_nfa2dfa as NN
from gambatools import notebook_cfg as NC
from gambatools import notebook_chomsky as NCH
from gambatools import notebook_experimental as NE
from gambatools import automata_checker as AC
from gambatools import language_generator as LG

ASSUMPTIONS = [
    "answers are rendered by ref/text.py / gen/answers.py from known specs (correct key computed by the references, single mutation of it, independent object) "
    "or are ill-formed texts; the criterion is evaluated on the known spec with the reference semantics, never with the library",
    "asserted direction: verdict OK => criterion holds (soundness); completeness of the checkers is C13's subject",
    "PDA answers/references are restricted to those whose eps-closures (reference) stay below the configured limit (the README documents that the enumerator may "
    "miss words otherwise); TM languages use the default budget of 1000 steps",
    "criteria: language agreement on all words up to the checker's bound, plus for product automata: pair states, initial pair, synchronous transitions; minimal DFA: "
    "state count = Myhill-Nerode index when all instance states are reachable; NFA->DFA: total deterministic automaton without eps-moves over set-labelled states with "
    "initial label E(q0); CYK: exactly |w| rows of 1..|w| entries, every cell exact; derivations: every step valid; Chomsky phases: the cumulative requirements of the "
    "exercise text",
]
PDA_LIMIT = 60


def verdict(fn, *args, **kw):
    buf = io.StringIO()
    with contextlib.redirect_stdout(buf):
        lib(fn, *args, **kw)
    lines = [l for l in buf.getvalue().split("\n") if l.strip()]
    return (bool(lines) and lines[0].strip() == "OK"), lines


def words_str(words):
    return " ".join(sorted((w if w else "ε") for w in words))


def lang(kind, spec, n):
    if kind in ("dfa", "nfa"):
        return {w for w in G.all_words(spec["S"], n) if fa.nfa_accepts(spec, w)}
    if kind == "pda":
        return RP.lang_upto(spec, n)
    if kind == "tm":
        return {w for w in G.all_words(spec["S"], n) if RTM.run(spec, w, 1000)[0] is True}
    if kind == "cfg":
        return RC.lang_upto(spec, n)
    if kind == "regexp":
        return {w for w in G.all_words(sorted(RX.symbols(spec)), n) if RX.matches(spec, w)}
    raise ValueError(kind)


def render(kind, spec):
    if kind in RT.KINDS:
        return RT.render(kind, spec, {"group": True})
    if kind == "cfg":
        return GA.render_cfg(spec)
    return GA.render_regexp_simple(spec)


def pda_safe(spec, n):
    return all(max(RP.closure_sizes(spec, w, PDA_LIMIT)) <= PDA_LIMIT for w in G.all_words(spec["S"], n))


class pda_limit(object):
    def __enter__(self):
        self.old = GambaTools.pda_epsilon_closure_max_iterations
        GambaTools.pda_epsilon_closure_max_iterations = PDA_LIMIT

    def __exit__(self, *a):
        GambaTools.pda_epsilon_closure_max_iterations = self.old


def check_feedback_words(lines, answer_lang, ref_lang, what):
    """A reported counterexample word must be genuine, with the right polarity, and of minimal length within its class."""
    for l in lines:
        m = re.search(r"word '(.*)' should (not )?be accepted", l)
        if not m:
            continue
        w = "" if m.group(1) == "ε" else m.group(1)
        if m.group(2):
            cls = answer_lang - ref_lang
            pol = "accepted by the answer but not by the reference"
        else:
            cls = ref_lang - answer_lang
            pol = "accepted by the reference but not by the answer"
        if w not in cls:
            raise Fail("feedback_word_not_genuine", "%s reports %r, which is not %s" % (what, l, pol))
        if len(w) > min(len(x) for x in cls):
            raise Fail("feedback_word_not_minimal", "%s reports %r although a shorter such word exists (%r)" % (what, l, min(cls, key=len)))


# ---------------- 1. language from a word list / a reference file ----------------

WORDS_FN = {"dfa": NB.check_dfa_language_from_words, "nfa": NB.check_nfa_language_from_words, "pda": NB.check_pda_language_from_words,
            "tm": NB.check_tm_language_from_words, "cfg": NB.check_cfg_language_from_words, "regexp": NB.check_regexp_language_from_words}
FILE_FN = {"dfa": NB.check_dfa_language_from_file, "nfa": NB.check_nfa_language_from_file, "pda": NB.check_pda_language_from_file,
           "tm": NB.check_tm_language_from_file, "cfg": NB.check_cfg_language_from_file, "regexp": NB.check_regexp_language_from_file}


def nstates(kind, spec):
    return len(spec["Q"]) if kind in RT.KINDS else 0


def run_lang_words(case):
    kind, ref, ans, n, max_states = case["kind"], case["ref"], case["answer"], case["n"], case["max_states"]
    if kind == "pda" and not (pda_safe(ref, n) and (isinstance(ans, str) or pda_safe(ans, n))):
        return {"nt": False, "cls": ["pda_beyond_closure_limit_skipped"]}
    L_ref = lang(kind, ref, n)
    text = ans if isinstance(ans, str) else render(kind, ans)
    with pda_limit():
        if kind in ("cfg", "regexp"):
            ok, lines = verdict(WORDS_FN[kind], text, words_str(L_ref), n)
        else:
            ok, lines = verdict(WORDS_FN[kind], text, words_str(L_ref), n, max_states)
    if isinstance(ans, str):
        crit, L_ans = False, None
    else:
        L_ans = lang(kind, ans, n)
        crit = L_ans == L_ref and not (0 < max_states < nstates(kind, ans))
    if ok and not crit:
        raise Fail("ok_for_wrong_answer_words_" + kind, "check_%s_language_from_words prints OK although %s; answer:\n%s\nwords: %s" %
                   (kind, "the answer is ill-formed" if L_ans is None else ("languages differ on %r" % sorted(L_ans ^ L_ref, key=len)[:3] if L_ans != L_ref else "the state limit %d is exceeded" % max_states), text, words_str(L_ref)))
    if L_ans is not None:
        check_feedback_words(lines, L_ans, L_ref, "check_%s_language_from_words" % kind)
    return {"nt": not crit, "cls": [kind, case["answer_class"], "verdict_ok" if ok else "verdict_error"], "out": {"verdict": lines[:1]}}


def run_lang_file(case):
    kind, rkind, ref, ans, n = case["kind"], case["ref_kind"], case["ref"], case["answer"], case["n"]
    for k, s in ((kind, ans), (rkind, ref)):
        if k == "pda" and not isinstance(s, str) and not pda_safe(s, n):
            return {"nt": False, "cls": ["pda_beyond_closure_limit_skipped"]}
    L_ref = lang(rkind, ref, n)
    text = ans if isinstance(ans, str) else render(kind, ans)
    with tempfile.TemporaryDirectory(prefix="c12-", dir=case.get("_tmp")) as d:
        path = os.path.join(d, "reference." + rkind)
        with open(path, "w", encoding="utf8") as f:
            f.write(render(rkind, ref))
        with pda_limit():
            ok, lines = verdict(FILE_FN[kind], text, path, n)
    if isinstance(ans, str):
        crit, L_ans = False, None
    else:
        L_ans = lang(kind, ans, n)
        crit = L_ans == L_ref
    if ok and not crit:
        raise Fail("ok_for_wrong_answer_file_" + kind, "check_%s_language_from_file prints OK although %s; answer:\n%s\nreference (%s):\n%s" %
                   (kind, "the answer is ill-formed" if L_ans is None else "languages differ on %r" % sorted(L_ans ^ L_ref, key=len)[:3], text, rkind, render(rkind, ref)))
    if L_ans is not None:
        check_feedback_words(lines, L_ans, L_ref, "check_%s_language_from_file" % kind)
    return {"nt": not crit, "cls": [kind, "ref_" + rkind, case["answer_class"], "verdict_ok" if ok else "verdict_error"], "out": {"verdict": lines[:1]}}


def spec_of(draw, kind, small=True):
    if kind == "dfa":
        return draw(G.dfa_specs(max_states=4, min_sigma=1, max_sigma=2, sigma=None))
    if kind == "nfa":
        return draw(G.nfa_specs(max_states=4, min_sigma=1, max_sigma=2, eps_choices=GX.PRINTABLE_EPS))
    if kind == "pda":
        return draw(st.one_of(GP.pda_specs(max_states=3, max_trans=5, eps_choices=GX.PRINTABLE_EPS, sigma=["a", "b"]), GP.structured_pda_specs(eps_choices=("ε", "_"), max_noise=1)))
    if kind == "tm":
        return draw(GT.tm_specs(max_states=4, sigma=["a", "b"], halting_initial=False))
    if kind == "cfg":
        k = draw(st.integers(0, 7))
        if k == 0:
            # unit-rule chains and cycles through 4-6 variables (shuffled rule list)
            s = draw(GC.unit_chain_specs(terms=("a", "b"), max_len=5))
            s["R"] = [r for r in s["R"] if r[0] == s["S"]] + [r for r in s["R"] if r[0] != s["S"]]
            if not any(r[0] == s["S"] for r in s["R"]):
                s["R"].insert(0, [s["S"], ["a"]])
            for A in s["V"]:
                if not any(r[0] == A for r in s["R"]):
                    s["R"].append([A, ["b"]])
        elif k <= 2:
            s = draw(GC.pseudo_cnf_specs(max_vars=3))
        else:
            s = draw(GC.cfg_specs(max_vars=3, terms=("a", "b"), simple=True, allow_norule=False, max_len=3))
        s["T"] = sorted({x for _, rhs in s["R"] for x in rhs if x not in s["V"]}) or ["a"]
        return s
    return draw(GR.trees(["a", "b"], max_leaves=6))


def mutated(draw, kind, spec):
    if kind in ("dfa",):
        return draw(GA.mutate_fa(spec))
    if kind == "nfa":
        return draw(GA.mutate_fa(spec, nfa=True))
    if kind == "cfg":
        m = draw(GA.mutate_cfg(spec))
        m["T"] = sorted(set(spec["T"]) | {x for _, rhs in m["R"] for x in rhs if x not in m["V"]})
        return m
    if kind == "regexp":
        return draw(GA.mutate_regex(spec))
    if kind == "pda":
        s = dict(spec, d=[list(t) for t in spec["d"]], F=list(spec["F"]))
        if s["d"] and draw(st.booleans()):
            del s["d"][draw(st.integers(0, len(s["d"]) - 1))]
        else:
            q = s["Q"][draw(st.integers(0, len(s["Q"]) - 1))]
            s["F"] = [x for x in s["F"] if x != q] if q in s["F"] else s["F"] + [q]
        return s
    s = dict(spec, d=[list(t) for t in spec["d"]])
    if s["d"]:
        t = s["d"][draw(st.integers(0, len(s["d"]) - 1))]
        if draw(st.booleans()):
            t[2] = s["Q"][draw(st.integers(0, len(s["Q"]) - 1))]
        else:
            t[4] = "L" if t[4] == "R" else "R"
    return s


@st.composite
def answer_for(draw, kind, ref):
    cls = draw(st.sampled_from(["key", "mutation", "mutation", "independent", "ill_formed"]))
    if cls == "key":
        return cls, ref
    if cls == "mutation":
        return cls, mutated(draw, kind, ref)
    if cls == "independent":
        return cls, spec_of(draw, kind)
    return cls, draw(st.sampled_from(GA.ILL_FORMED[kind]))


@st.composite
def lang_words_cases(draw, tier):
    kind = draw(st.sampled_from(["dfa", "nfa", "pda", "tm", "cfg", "regexp"]))
    ref = spec_of(draw, kind)
    cls, ans = draw(answer_for(kind, ref))
    n = draw(st.sampled_from([3, 4])) if kind not in ("pda", "tm") else 3
    ms = draw(st.sampled_from([0, 0, 1, 2, 3, 4, 6]))
    return {"kind": kind, "ref": ref, "answer": ans, "answer_class": cls, "n": n, "max_states": ms}


@st.composite
def lang_file_cases(draw, tier):
    if draw(st.integers(0, 7)) == 0:
        # answer and reference agree on all short words: the first difference is longer than either state count
        ref, ans, m = draw(GA.late_difference_pair())
        kind, rkind = draw(st.sampled_from([("dfa", "dfa"), ("dfa", "dfa"), ("nfa", "dfa"), ("dfa", "nfa"), ("nfa", "nfa")]))
        as_kind = lambda k, s: s if k == "dfa" else dict(s, eps="ε", rep="dd_set")
        n = m + draw(st.sampled_from([-1, 0, 0, 1, 2]))
        return {"kind": kind, "ref_kind": rkind, "ref": as_kind(rkind, ref), "answer": as_kind(kind, ans), "answer_class": "late_difference", "n": max(n, 1)}
    if draw(st.integers(0, 11)) == 0:
        # the same for expressions and grammars: a* against 1 + a + ... + a^m (first difference a^(m+1)), with the length given explicitly
        m = draw(st.integers(3, 6))
        kind = draw(st.sampled_from(["regexp", "cfg"]))
        if kind == "regexp":
            fin = ["1"]
            for k in range(1, m + 1):
                w = ["s", "a"]
                for _ in range(k - 1):
                    w = [".", w, ["s", "a"]]
                fin = ["+", fin, w]
            pair = (["*", ["s", "a"]], fin)
        else:
            pair = ({"V": ["S"], "T": ["a"], "R": [["S", ["a", "S"]], ["S", []]], "S": "S"},
                    {"V": ["S"], "T": ["a"], "R": [["S", []]] + [["S", ["a"] * k] for k in range(1, m + 1)], "S": "S"})
        ref, ans = pair if draw(st.booleans()) else (pair[1], pair[0])
        return {"kind": kind, "ref_kind": kind, "ref": ref, "answer": ans, "answer_class": "late_difference", "n": m + draw(st.sampled_from([0, 1, 1, 2]))}
    kind = draw(st.sampled_from(["dfa", "nfa", "cfg", "regexp", "pda", "tm"]))
    rkind = kind if draw(st.integers(0, 2)) else draw(st.sampled_from(["dfa", "nfa", "regexp", "cfg"]))
    ref = spec_of(draw, rkind)
    if rkind == kind:
        cls, ans = draw(answer_for(kind, ref))
    else:
        cls = draw(st.sampled_from(["independent", "ill_formed"]))
        ans = spec_of(draw, kind) if cls == "independent" else draw(st.sampled_from(GA.ILL_FORMED[kind]))
    return {"kind": kind, "ref_kind": rkind, "ref": ref, "answer": ans, "answer_class": cls, "n": 3}


# ---------------- 2. DFA -> regexp ----------------

def run_dfa2regexp(case):
    dfa, ans, n = case["dfa"], case["answer"], case["n"]
    text = ans if isinstance(ans, str) else GA.render_regexp_simple(ans)
    ok, lines = verdict(NB.check_dfa2regexp, RT.render("dfa", dfa, {"group": True}), text, n)
    L_ref = lang("dfa", dfa, n)
    if isinstance(ans, str):
        crit, L_ans = False, None
    else:
        L_ans = {w for w in G.all_words(sorted(set(dfa["S"]) | RX.symbols(ans)), n) if RX.matches(ans, w)}
        crit = L_ans == L_ref
    if ok and not crit:
        raise Fail("ok_for_wrong_answer_dfa2regexp", "check_dfa2regexp prints OK although %s; regexp %r" %
                   ("the answer is ill-formed" if L_ans is None else "languages differ on %r" % sorted(L_ans ^ L_ref, key=len)[:3], text))
    if L_ans is not None:
        check_feedback_words(lines, L_ans, L_ref, "check_dfa2regexp")
    return {"nt": not crit, "cls": [case["answer_class"], "verdict_ok" if ok else "verdict_error"], "out": {"verdict": lines[:1]}}


def eliminate(dfa):
    """Reference state elimination producing a tree (key answer for DFA -> regexp)."""
    A = fa.rdfa(dfa)
    Q = fa.reachable(A)
    E = {}

    def add(p, q, r):
        E[p, q] = ["+", E[p, q], r] if (p, q) in E else r
    add("#s", A["q0"], ["1"])
    for q in Q:
        if q in A["F"]:
            add(q, "#f", ["1"])
        for a in A["S"]:
            add(q, A["d"][q, a], ["s", a])
    for rip in Q:
        loop = E.pop((rip, rip), None)
        ins = [(p, r) for (p, q), r in E.items() if q == rip]
        outs = [(q, r) for (p, q), r in E.items() if p == rip]
        for k in [k for k in E if rip in k]:
            del E[k]
        for p, r1 in ins:
            for q, r3 in outs:
                mid = [".", ["*", loop], r3] if loop else r3
                add(p, q, [".", r1, mid])
    return E.get(("#s", "#f"), ["0"])


@st.composite
def dfa2regexp_cases(draw, tier):
    dfa = draw(G.dfa_specs(max_states=3, sigma=draw(st.sampled_from([["a"], ["a", "b"]]))))
    cls = draw(st.sampled_from(["key", "mutation", "mutation", "independent", "ill_formed"]))
    key = eliminate(dfa)
    if RX.size(key) > 40:
        cls = "independent"
    if cls == "key":
        ans = key
    elif cls == "mutation":
        ans = draw(GA.mutate_regex(key))
    elif cls == "independent":
        ans = draw(GR.trees(dfa["S"], max_leaves=5))
    else:
        ans = draw(st.sampled_from(GA.ILL_REGEXP))
    return {"dfa": dfa, "answer": ans, "answer_class": cls, "n": draw(st.sampled_from([4, 5, 6]))}


# ---------------- 3. accept / reject lists ----------------

def accepts_ref(kind, spec, w):
    if kind in ("dfa", "nfa"):
        return fa.nfa_accepts(spec, w)
    if kind == "pda":
        return RP.accepts(spec, w)
    if kind == "tm":
        return RTM.run(spec, w, 1000)[0] is True
    if kind == "cfg":
        return RC.accepts(spec, w)
    return RX.matches(spec, w)


def run_accepts_rejects(case):
    from bridge import fa as B, pda as BP, tm as BT, cfg as BC, regex as BR
    kind, spec, acc, rej, api = case["kind"], case["spec"], case["accepted"], case["rejected"], case["api"]
    if kind == "pda" and not pda_safe(spec, 4):
        return {"nt": False, "cls": ["pda_beyond_closure_limit_skipped"]}
    crit = all(accepts_ref(kind, spec, w) for w in acc) and not any(accepts_ref(kind, spec, w) for w in rej)
    a, r = words_str(acc), words_str(rej)
    with pda_limit():
        if api == "object":
            obj = {"dfa": B.mk_dfa, "nfa": B.mk_nfa, "pda": BP.mk_pda, "tm": BT.mk_tm, "cfg": BC.mk_cfg, "regexp": BR.mk}[kind](spec)
            ok, lines = verdict(NB.check_automaton_accepts_rejects, obj, a, r)
        elif api == "dfa_text":
            ok, lines = verdict(NB.check_dfa_accepts_rejects, render("dfa", spec), a, r)
        elif api == "cfg_text":
            ok, lines = verdict(NB.check_cfg_accepts_rejects, render("cfg", spec), a, r)
        elif api == "cfg_accepts":
            ok, lines = verdict(NE.check_cfg_accepts, render("cfg", spec), a)
            crit = all(accepts_ref(kind, spec, w) for w in acc)
        else:
            ok, lines = verdict(NE.check_cfg_rejects, render("cfg", spec), r)
            crit = not any(accepts_ref(kind, spec, w) for w in rej)
    if ok and not crit:
        raise Fail("ok_for_wrong_answer_accepts_rejects_%s_%s" % (kind, api), "%s prints OK although the %s violates the lists accepted=%r rejected=%r; object %r" % (api, kind, a, r, spec))
    for l in lines:
        m = re.search(r"word '(.*)' should (not )?be accepted", l)
        if m:
            w = "" if m.group(1) == "ε" else m.group(1)
            if bool(m.group(2)) != accepts_ref(kind, spec, w) or w not in (rej if m.group(2) else acc):
                raise Fail("feedback_word_not_genuine", "%s reports %r, which is wrong for the submitted %s" % (api, l, kind))
    return {"nt": not crit, "cls": [kind, api, "verdict_ok" if ok else "verdict_error"], "out": {"verdict": lines[:1]}}


@st.composite
def accepts_rejects_cases(draw, tier):
    api = draw(st.sampled_from(["object", "object", "dfa_text", "cfg_text", "cfg_accepts", "cfg_rejects"]))
    kind = {"dfa_text": "dfa"}.get(api, "cfg" if api.startswith("cfg") else draw(st.sampled_from(["dfa", "nfa", "pda", "tm", "cfg", "regexp"])))
    spec = spec_of(draw, kind)
    S = sorted(RX.symbols(spec)) if kind == "regexp" else (spec["T"] if kind == "cfg" else spec["S"])
    S = S or ["a"]
    L = lang(kind, spec, 3) if kind != "pda" else None
    ws = st.text(alphabet=S, max_size=4)
    acc = draw(st.lists(ws, max_size=3, unique=True))
    rej = draw(st.lists(ws, max_size=3, unique=True))
    if L is not None and draw(st.booleans()):
        # lists that are consistent with the object (OK expected), possibly with one planted mistake
        allw = G.all_words(S, 3)
        acc = [w for w in allw if w in L][:3]
        rej = [w for w in allw if w not in L][:3]
        if draw(st.booleans()) and acc and rej:
            if draw(st.booleans()):
                acc = acc + [rej[0]]
            else:
                rej = rej + [acc[-1]]
    return {"kind": kind, "spec": spec, "accepted": acc, "rejected": rej, "api": api}


R_COMMON = ("answers of four classes (reference key, single mutation, independent object, ill-formed text); soundness: verdict OK implies the independent "
            "criterion; reported counterexample words must be genuine, of the right polarity and of minimal length; non-trivial: the criterion is false (wrong answer)")
CLAUSES = [
    Clause("lang_words", lang_words_cases, run_lang_words, quick=700, thorough=6000,
           rule="check_{dfa,nfa,pda,tm,cfg,regexp}_language_from_words with max_states: " + R_COMMON),
    Clause("lang_file", lang_file_cases, run_lang_file, quick=400, thorough=3000,
           rule="check_*_language_from_file with a reference of the same or another kind written to a temporary file: " + R_COMMON),
    Clause("dfa2regexp", dfa2regexp_cases, run_dfa2regexp, quick=250, thorough=2000,
           rule="check_dfa2regexp with key from an independent state elimination, mutations, random expressions, ill-formed text; lengths 4-6: " + R_COMMON),
    Clause("accepts_rejects", accepts_rejects_cases, run_accepts_rejects, quick=600, thorough=5000,
           rule="check_automaton_accepts_rejects (six kinds), check_dfa_accepts_rejects, check_cfg_accepts_rejects, check_cfg_accepts, check_cfg_rejects with "
                "random, consistent and one-mistake word lists; OK implies every listed word has the listed status under the reference semantics"),
]
KNOWN_PREDICATES = {}


# =====================================================================================
# structural exercises
# =====================================================================================

def pair(q1, q2):
    return "(%s,%s)" % (q1, q2)


def product_spec(d1, d2, op):
    f = {"union": lambda x, y: x or y, "intersection": lambda x, y: x and y, "symmetric_difference": lambda x, y: x != y}[op]
    t1 = {(p, a): q for p, a, q in d1["d"]}
    t2 = {(p, a): q for p, a, q in d2["d"]}
    Q = [pair(p, q) for p in d1["Q"] for q in d2["Q"]]
    d = [[pair(p, q), a, pair(t1[p, a], t2[q, a])] for p in d1["Q"] for q in d2["Q"] for a in d1["S"]]
    F = [pair(p, q) for p in d1["Q"] for q in d2["Q"] if f(p in d1["F"], q in d2["F"])]
    return {"Q": Q, "S": list(d1["S"]), "d": d, "q0": pair(d1["q0"], d2["q0"]), "F": F, "eps": None}


def is_total_dfa(spec):
    return fa.valid_dfa_snapshot(dict(spec, eps=None)) is None


def lang_op(op, L1, L2):
    return {"union": L1 | L2, "intersection": L1 & L2, "symmetric_difference": L1 ^ L2}[op]


def run_product(case):
    d1, d2, op, ans, n = case["d1"], case["d2"], case["op"], case["answer"], case["n"]
    fn = {"union": ND.check_dfa_union, "intersection": ND.check_dfa_intersection, "symmetric_difference": ND.check_dfa_symmetric_difference}[op]
    text = ans if isinstance(ans, str) else render("dfa", ans)
    ok, lines = verdict(fn, text, render("dfa", d1), render("dfa", d2), n)
    crit, why = False, "the answer is ill-formed"
    if not isinstance(ans, str) and is_total_dfa(ans):
        pairs = {pair(p, q): (p, q) for p in d1["Q"] for q in d2["Q"]}
        t1 = {(p, a): q for p, a, q in d1["d"]}
        t2 = {(p, a): q for p, a, q in d2["d"]}
        Lw = lang_op(op, lang("dfa", d1, n), lang("dfa", d2, n))
        if not all(q in pairs for q in ans["Q"]):
            why = "some state is not a pair of operand states"
        elif sorted(ans["S"]) != sorted(d1["S"]):
            why = "the alphabet differs"
        elif ans["q0"] != pair(d1["q0"], d2["q0"]):
            why = "the initial state is not the pair of initial states"
        elif any(q != pair(t1[pairs[p][0], a], t2[pairs[p][1], a]) for p, a, q in ans["d"]):
            why = "a transition is not synchronous"
        elif any((q in ans["F"]) != {"union": lambda x, y: x or y, "intersection": lambda x, y: x and y, "symmetric_difference": lambda x, y: x != y}[op](
                pairs[q][0] in d1["F"], pairs[q][1] in d2["F"]) for q in ans["Q"]):
            why = "the accepting pairs are not those of the %s product" % op
        elif lang("dfa", ans, n) != Lw:
            why = "the language differs from the %s on %r" % (op, sorted(lang("dfa", ans, n) ^ Lw, key=len)[:3])
        else:
            crit = True
    if ok and not crit:
        raise Fail("ok_for_wrong_answer_product_" + op, "check_dfa_%s prints OK although %s; answer:\n%s\ndfa1:\n%s\ndfa2:\n%s" % (op, why, text, render("dfa", d1), render("dfa", d2)))
    return {"nt": not crit, "cls": [op, case["answer_class"], "verdict_ok" if ok else "verdict_error"], "out": {"verdict": lines[:1]}}


@st.composite
def product_cases(draw, tier):
    S = draw(st.sampled_from([["a"], ["a", "b"]]))
    d1 = draw(G.dfa_specs(max_states=3, sigma=S, pool=G.POOL[:6]))
    d2 = draw(G.dfa_specs(max_states=2, sigma=S, pool=G.POOL[8:14]))
    op = draw(st.sampled_from(["union", "intersection", "symmetric_difference"]))
    key = product_spec(d1, d2, op)
    cls = draw(st.sampled_from(["key", "mutation", "mutation", "mutation", "wrong_op", "ill_formed"]))
    if cls == "key":
        ans = key
        if draw(st.booleans()):
            # only the reachable part (still a product automaton)
            A = fa.rdfa(key)
            R = set(fa.reachable(A))
            ans = dict(key, Q=[q for q in key["Q"] if q in R], d=[t for t in key["d"] if t[0] in R], F=[q for q in key["F"] if q in R])
            cls = "key_reachable_part"
    elif cls == "mutation":
        ans = draw(GA.mutate_fa(key))
        if draw(st.integers(0, 4)) == 0:
            bad = "(x,y)"
            m = ans["Q"][-1]
            r = lambda q: bad if q == m else q
            ans = dict(ans, Q=[r(q) for q in ans["Q"]], d=[[r(p), a, r(q)] for p, a, q in ans["d"]], q0=r(ans["q0"]), F=[r(q) for q in ans["F"]])
    elif cls == "wrong_op":
        ans = product_spec(d1, d2, draw(st.sampled_from([o for o in ["union", "intersection", "symmetric_difference"] if o != op])))
    else:
        ans = draw(st.sampled_from(GA.ILL_AUTOMATON + ["initial (q0,p0)\n(q0,p0) (q0,p0) a\nfinal (q0,p0)\nstates (q0,p0) q1", render("dfa", d1)]))
    return {"d1": d1, "d2": d2, "op": op, "answer": ans, "answer_class": cls, "n": draw(st.sampled_from([4, 5, 8]))}


def run_complement(case):
    d1, ans = case["dfa"], case["answer"]
    text = ans if isinstance(ans, str) else render("dfa", ans)
    ok, lines = verdict(ND.check_dfa_complement, text, render("dfa", d1))
    n = 6
    crit, why = False, "the answer is ill-formed"
    if not isinstance(ans, str) and is_total_dfa(ans):
        if sorted(ans["S"]) != sorted(d1["S"]):
            why = "the alphabet differs"
        else:
            want = set(G.all_words(d1["S"], n)) - lang("dfa", d1, n)
            got = lang("dfa", ans, n)
            crit = got == want
            why = "the language is not the complement (differs on %r)" % sorted(got ^ want, key=len)[:3]
    if ok and not crit:
        raise Fail("ok_for_wrong_answer_complement", "check_dfa_complement prints OK although %s; answer:\n%s\ndfa:\n%s" % (why, text, render("dfa", d1)))
    return {"nt": not crit, "cls": [case["answer_class"], "verdict_ok" if ok else "verdict_error"], "out": {"verdict": lines[:1]}}


@st.composite
def complement_cases(draw, tier):
    if draw(st.integers(0, 9)) == 0:
        d1, other, m = draw(GA.late_difference_pair())
        return {"dfa": d1, "answer": dict(other, F=[q for q in other["Q"] if q not in other["F"]]), "answer_class": "late_difference_%d" % m}
    d1 = draw(G.dfa_specs(max_states=4, min_sigma=1, max_sigma=2))
    key = dict(d1, F=[q for q in d1["Q"] if q not in d1["F"]])
    cls = draw(st.sampled_from(["key", "mutation", "mutation", "unchanged", "independent", "ill_formed"]))
    ans = {"key": lambda: key, "mutation": lambda: draw(GA.mutate_fa(key)), "unchanged": lambda: d1,
           "independent": lambda: draw(G.dfa_specs(max_states=3, sigma=d1["S"])), "ill_formed": lambda: draw(st.sampled_from(GA.ILL_AUTOMATON))}[cls]()
    return {"dfa": d1, "answer": ans, "answer_class": cls}


def run_reverse(case):
    d1, ans, n = case["dfa"], case["answer"], case["n"]
    text = ans if isinstance(ans, str) else render("nfa", ans)
    ok, lines = verdict(ND.check_dfa_reverse, render("dfa", d1), text, n)
    crit, why = False, "the answer is ill-formed"
    if not isinstance(ans, str):
        want = {w[::-1] for w in lang("dfa", d1, n)}
        got = lang("nfa", ans, n)
        crit = got == want
        why = "the language is not the reverse (differs on %r)" % sorted(got ^ want, key=len)[:3]
        if crit or True:
            check_feedback_words(lines, got, want, "check_dfa_reverse")
    if ok and not crit:
        raise Fail("ok_for_wrong_answer_reverse", "check_dfa_reverse prints OK although %s; answer:\n%s\ndfa:\n%s" % (why, text, render("dfa", d1)))
    return {"nt": not crit, "cls": [case["answer_class"], "verdict_ok" if ok else "verdict_error"], "out": {"verdict": lines[:1]}}


def reverse_key(d1, eps="ε"):
    new = next(x for x in ["q", "r0", "init"] + ["n%d" % i for i in range(9)] if x not in d1["Q"])
    return {"Q": d1["Q"] + [new], "S": list(d1["S"]), "d": [[q, a, p] for p, a, q in d1["d"]] + [[new, eps, f] for f in d1["F"]],
            "q0": new, "F": [d1["q0"]], "eps": eps}


@st.composite
def reverse_cases(draw, tier):
    if draw(st.integers(0, 9)) == 0:
        # languages that only count the a's are their own mirror image
        d1, other, m = draw(GA.late_difference_pair())
        return {"dfa": d1, "answer": dict(other, eps="ε"), "answer_class": "late_difference", "n": min(m + draw(st.sampled_from([-1, 0, 0, 1])), 8)}
    d1 = draw(G.dfa_specs(max_states=4, min_sigma=1, max_sigma=2))
    key = reverse_key(d1, draw(st.sampled_from(["ε", "_"])))
    cls = draw(st.sampled_from(["key", "mutation", "mutation", "not_reversed", "independent", "ill_formed"]))
    ans = {"key": lambda: key, "mutation": lambda: draw(GA.mutate_fa(key, nfa=True)), "not_reversed": lambda: dict(d1, eps="_"),
           "independent": lambda: draw(G.nfa_specs(max_states=3, sigma=d1["S"], eps_choices=["ε", "_"])), "ill_formed": lambda: draw(st.sampled_from(GA.ILL_AUTOMATON))}[cls]()
    return {"dfa": d1, "answer": ans, "answer_class": cls, "n": draw(st.sampled_from([4, 5]))}


def run_minimal(case):
    d1, ans, n = case["dfa"], case["answer"], case["n"]
    text = ans if isinstance(ans, str) else render("dfa", ans)
    ok, lines = verdict(ND.check_dfa_minimal, render("dfa", d1), text, n)
    A = fa.rdfa(d1)
    all_reachable = len(fa.reachable(A)) == len(d1["Q"])
    crit, why = False, "the answer is ill-formed"
    if not isinstance(ans, str) and is_total_dfa(ans):
        got, want = lang("dfa", ans, n), lang("dfa", d1, n)
        index = fa.n_classes(A, fa.reachable(A))
        if got != want:
            why = "the languages differ on %r" % sorted(got ^ want, key=len)[:3]
        elif all_reachable and len(ans["Q"]) != index:
            why = "the answer has %d states, the minimal number is %d" % (len(ans["Q"]), index)
        else:
            crit = True
        check_feedback_words(lines, got, want, "check_dfa_minimal")
    if ok and not crit:
        raise Fail("ok_for_wrong_answer_minimal", "check_dfa_minimal prints OK although %s; answer:\n%s\ndfa:\n%s" % (why, text, render("dfa", d1)))
    return {"nt": not crit, "cls": [case["answer_class"], "all_reachable" if all_reachable else "instance_with_unreachable_states", "verdict_ok" if ok else "verdict_error"],
            "out": {"verdict": lines[:1]}}


def minimal_key(d1):
    A = fa.rdfa(d1)
    R = fa.reachable(A)
    cl = fa.moore_classes(A, R)
    blocks = {}
    for q in R:
        blocks.setdefault(cl[q], []).append(q)
    name = {c: "{%s}" % ",".join(sorted(b)) for c, b in blocks.items()}
    rep = {c: b[0] for c, b in blocks.items()}
    return {"Q": [name[c] for c in blocks], "S": list(d1["S"]), "d": [[name[c], a, name[cl[A["d"][rep[c], a]]]] for c in blocks for a in d1["S"]],
            "q0": name[cl[d1["q0"]]], "F": [name[c] for c in blocks if rep[c] in A["F"]], "eps": None}


@st.composite
def minimal_cases(draw, tier):
    if draw(st.integers(0, 9)) == 0:
        d1, other, m = draw(GA.late_difference_pair())
        return {"dfa": d1, "answer": other, "answer_class": "late_difference", "n": min(m + draw(st.sampled_from([-1, 0, 0, 1])), 8)}
    d1 = draw(st.one_of(G.inflated_dfa_specs(max_states=3, max_sigma=2), G.dfa_specs(max_states=4, min_sigma=1, max_sigma=2)))
    if not d1["S"]:
        d1 = draw(G.dfa_specs(max_states=3, min_sigma=1, max_sigma=2))
    key = minimal_key(d1)
    cls = draw(st.sampled_from(["key", "mutation", "mutation", "not_minimised", "independent", "ill_formed"]))
    ans = {"key": lambda: key, "mutation": lambda: draw(GA.mutate_fa(key)), "not_minimised": lambda: d1,
           "independent": lambda: draw(G.dfa_specs(max_states=3, sigma=d1["S"])), "ill_formed": lambda: draw(st.sampled_from(GA.ILL_AUTOMATON))}[cls]()
    return {"dfa": d1, "answer": ans, "answer_class": cls, "n": draw(st.sampled_from([4, 5, 8]))}


# ---------------- NFA -> DFA ----------------

def setname(X):
    return "{%s}" % ",".join(sorted(X))


def subset_key(nfa):
    D = fa.determinise(nfa)
    return {"Q": [setname(X) for X in D["Q"]], "S": list(D["S"]), "d": [[setname(X), a, setname(Y)] for (X, a), Y in D["d"].items()],
            "q0": setname(D["q0"]), "F": [setname(X) for X in D["F"]], "eps": "_" if nfa["eps"] != "_" else "ε"}


def run_nfa2dfa(case):
    nfa, ans = case["nfa"], case["answer"]
    text = ans if isinstance(ans, str) else RT.render("nfa", ans, {"group": True, "omit": case.get("omit", [])})
    ok, lines = verdict(NN.check_nfa2dfa, render("nfa", nfa), text)
    crit, why = False, "the answer is ill-formed"
    if not isinstance(ans, str):
        eps = ans.get("eps")
        labels_ok = all(re.fullmatch(r"\{[\w,]*\}", q) and (set(q[1:-1].split(",")) - {""}) <= set(nfa["Q"]) for q in ans["Q"])
        if any(a == eps for _, a, _ in ans["d"]):
            why = "the answer has eps-moves, so it is not a DFA"
        elif fa.valid_dfa_snapshot(dict(ans, eps=None)) is not None:
            why = "the answer is not a total deterministic automaton (%s)" % fa.valid_dfa_snapshot(dict(ans, eps=None))
        elif not labels_ok:
            why = "a state label is not a set of NFA states"
        elif sorted(ans["S"]) != sorted(nfa["S"]):
            why = "the alphabet differs"
        elif (set(ans["q0"][1:-1].split(",")) - {""}) != fa.eclose(nfa, {nfa["q0"]}):
            why = "the initial state is not the eps-closure of the NFA's initial state"
        else:
            w = fa.equiv(fa.rdfa(dict(ans, eps=None)), fa.determinise(nfa))
            if w is not None:
                why = "the answer's language differs from the NFA's on %r" % w
            else:
                crit = True
    if ok and not crit:
        raise Fail("ok_for_wrong_answer_nfa2dfa", "check_nfa2dfa prints OK although %s; answer:\n%s\nnfa:\n%s" % (why, text, render("nfa", nfa)))
    return {"nt": not crit, "cls": [case["answer_class"], "verdict_ok" if ok else "verdict_error"], "out": {"verdict": lines[:1]}}


@st.composite
def nfa2dfa_cases(draw, tier):
    nfa = draw(G.nfa_specs(max_states=3, min_sigma=1, max_sigma=2, eps_choices=["ε", "_"], pool=G.POOL[:8]))
    key = subset_key(nfa)
    cls = draw(st.sampled_from(["target_of_superset", "key", "mutation", "other_initial", "target_of_superset", "mutation", "eps_move_added", "plus_unreachable_subset", "ill_formed"]))
    omit = []
    if cls == "key":
        ans = key
    elif cls == "mutation":
        ans = draw(GA.mutate_fa(key))
    elif cls == "other_initial":
        # another subset (preferably of the same size) is marked as the initial state
        others = [q for q in key["Q"] if q != key["q0"]]
        same = [q for q in others if q.count(",") == key["q0"].count(",") and q != "{}"]
        if others:
            pick = same or others
            ans = dict(key, q0=pick[draw(st.integers(0, len(pick) - 1))])
        else:
            ans, cls = key, "key"
    elif cls == "target_of_superset":
        # a typical confusion: the transition of a subset X is given the target that belongs to a larger subset Y containing X
        ans = dict(key, d=[list(t) for t in key["d"]])
        sets = {q: set(q[1:-1].split(",")) - {""} for q in key["Q"]}
        tgt = {(p, a): q for p, a, q in key["d"]}
        triples = [(x, y, a) for x in key["Q"] for y in key["Q"] if sets[x] < sets[y] for a in key["S"] if tgt[x, a] != tgt[y, a]]
        if triples:
            x, y, a = triples[draw(st.integers(0, len(triples) - 1))]
            for t in ans["d"]:
                if t[0] == x and t[1] == a:
                    t[2] = tgt[y, a]
        else:
            cls = "key"
    elif cls == "eps_move_added":
        ans = dict(key, d=[list(t) for t in key["d"]])
        ans["d"].append([key["Q"][draw(st.integers(0, len(key["Q"]) - 1))], key["eps"], key["Q"][draw(st.integers(0, len(key["Q"]) - 1))]])
        if draw(st.booleans()) and key["eps"] == "ε":
            omit = ["eps"]
    elif cls == "plus_unreachable_subset":
        sub = sorted(draw(st.lists(st.sampled_from(nfa["Q"]), min_size=1, max_size=3, unique=True)))
        name = setname(sub)
        ans = dict(key, Q=list(key["Q"]), d=[list(t) for t in key["d"]], F=list(key["F"]))
        if name not in ans["Q"]:
            ans["Q"].append(name)
            for a in nfa["S"]:
                tgt = fa.eclose(nfa, set().union(*[{q for p, x, q in nfa["d"] if p == s and x == a} for s in sub]))
                tn = setname(tgt)
                # the target may itself be unreachable; keep the automaton closed by sending it to an existing state if needed
                ans["d"].append([name, a, tn if tn in ans["Q"] else key["q0"]])
            if set(sub) & set(nfa["F"]):
                ans["F"].append(name)
    else:
        ans = draw(st.sampled_from(GA.ILL_AUTOMATON + ["initial {q0}\nfinal {q0}\n{q0} {q0 a"]))
    return {"nfa": nfa, "answer": ans, "answer_class": cls, "omit": omit}


# ---------------- CYK table ----------------

def cyk_rows(spec, w, table=None):
    """rows[k] (k = 0 .. n-1, top first) = list of cells; top row has one cell X[0,n-1], bottom row n cells X[j,j]."""
    n = len(w)
    T = table if table is not None else RC.span_table(spec, w)
    rows = []
    for i in range(n - 1, -1, -1):
        rows.append([sorted(A for A in spec["V"] if (A, j - i, j + 1) in T) for j in range(i, n)])
    return rows


def render_rows(rows):
    return "\n".join("  ".join("{%s}" % ",".join(c) for c in r) for r in rows)


def run_cyk(case):
    spec, w, rows = case["cfg"], case["w"], case["answer"]
    text = rows if isinstance(rows, str) else render_rows(rows)
    ok, lines = verdict(NC.check_cyk_matrix, render("cfg", spec), w, text)
    crit = (not isinstance(rows, str)) and rows == cyk_rows(spec, w)
    if ok and not crit:
        raise Fail("ok_for_wrong_answer_cyk", "check_cyk_matrix prints OK for a wrong table of %r:\n%s\nexpected:\n%s\ngrammar:\n%s" % (w, text, render_rows(cyk_rows(spec, w)), render("cfg", spec)))
    return {"nt": not crit, "cls": [case["answer_class"], "verdict_ok" if ok else "verdict_error"], "out": {"verdict": lines[:1]}}


@st.composite
def cyk_cases(draw, tier):
    spec = draw(GC.cnf_specs(max_vars=3, max_rules=8, start_eps=False))
    spec["R"] = [r for r in spec["R"] if r[0] == spec["S"]] + [r for r in spec["R"] if r[0] != spec["S"]]
    if not any(r[0] == spec["S"] for r in spec["R"]):
        spec["R"].insert(0, [spec["S"], [spec["T"][0]]])
    heads = {A for A, _ in spec["R"]}
    spec["V"] = [v for v in spec["V"] if v in heads]
    spec["R"] = [r for r in spec["R"] if all(x in heads or x in spec["T"] for x in r[1])]
    spec["T"] = sorted({x for _, rhs in spec["R"] for x in rhs if x not in heads}) or spec["T"][:1]
    w = draw(st.text(alphabet=spec["T"], min_size=1, max_size=4))
    key = cyk_rows(spec, w)
    cls = draw(st.sampled_from(["key", "cell_changed", "cell_changed", "prefix_table", "suffix_rows_dropped", "row_length", "ill_formed"]))
    if cls == "key":
        ans = key
    elif cls == "cell_changed":
        ans = [[list(c) for c in r] for r in key]
        r = ans[draw(st.integers(0, len(ans) - 1))]
        c = r[draw(st.integers(0, len(r) - 1))]
        v = spec["V"][draw(st.integers(0, len(spec["V"]) - 1))]
        if v in c:
            c.remove(v)
        else:
            c.append(v)
            c.sort()
    elif cls == "prefix_table":
        k = draw(st.integers(0, len(w) - 1))
        ans = cyk_rows(spec, w[:k]) if k else ""
    elif cls == "suffix_rows_dropped":
        ans = key[draw(st.integers(1, len(key))):] if len(key) > 1 else ""
    elif cls == "row_length":
        ans = [list(r) for r in key]
        ans[-1] = ans[-1] + [[]]
    else:
        ans = draw(st.sampled_from(["{A", "A B", "{A,}", "{a}", "{}{}", "{A} {B}\n{A}"]))
    return {"cfg": spec, "w": w, "answer": ans, "answer_class": cls}


# ---------------- derivations ----------------

def find_derivation(spec, w, mode, cap=4000):
    """BFS for a leftmost / rightmost derivation of w (own search)."""
    V = set(spec["V"])
    start = (spec["S"],)
    prev = {start: None}
    todo = [start]
    target = tuple(w)
    i = 0
    while i < len(todo) and len(prev) < cap:
        form = todo[i]
        i += 1
        if form == target:
            out = []
            while form is not None:
                out.append(list(form))
                form = prev[form]
            return out[::-1]
        pos = [k for k, x in enumerate(form) if x in V]
        if not pos:
            continue
        k = pos[0] if mode != "rightmost" else pos[-1]
        for A, rhs in spec["R"]:
            if A == form[k]:
                new = form[:k] + tuple(rhs) + form[k + 1:]
                if sum(1 for x in new if x not in V) <= len(w) and len(new) <= len(w) + 3 and new not in prev:
                    prev[new] = form
                    todo.append(new)
    return None


def run_derivation(case):
    spec, w, mode, forms = case["cfg"], case["w"], case["mode"], case["answer"]
    text = forms if isinstance(forms, str) else " => ".join("".join(f) for f in forms)
    args = (render("cfg", spec), text, w) + ((mode,) if mode != "leftmost" or case.get("explicit_mode") else ())
    ok, lines = verdict(NC.check_cfg_derivation, *args)
    crit = (not isinstance(forms, str)) and all(forms) and RC.check_derivation(spec, forms, w, mode) is None
    if ok and not crit:
        why = "the text is not a derivation" if isinstance(forms, str) else RC.check_derivation(spec, forms, w, mode)
        raise Fail("ok_for_wrong_answer_derivation_" + mode, "check_cfg_derivation(%s) prints OK although %s; derivation %r, word %r, grammar:\n%s" % (mode, why, text, w, render("cfg", spec)))
    return {"nt": not crit, "cls": [mode, case["answer_class"], "verdict_ok" if ok else "verdict_error"], "out": {"verdict": lines[:1]}}


@st.composite
def derivation_cases(draw, tier):
    if draw(st.booleans()):
        spec = spec_of(draw, "cfg")
    else:
        spec = draw(GC.cnf_specs(max_vars=4, max_rules=9, start_eps=False))
        heads = {A for A, _ in spec["R"]}
        spec["R"] = [r for r in spec["R"] if all(x in heads or x in spec["T"] for x in r[1])]
        if not any(r[0] == spec["S"] for r in spec["R"]):
            spec["R"].insert(0, [spec["S"], [spec["T"][0]]])
        spec["R"] = [r for r in spec["R"] if r[0] == spec["S"]] + [r for r in spec["R"] if r[0] != spec["S"]]
        spec["V"] = sorted({A for A, _ in spec["R"]})
        spec["R"] = [r for r in spec["R"] if all(x in spec["V"] or x in spec["T"] for x in r[1])]
        spec["T"] = sorted({x for _, rhs in spec["R"] for x in rhs if x not in spec["V"]}) or spec["T"][:1]
    mode = draw(st.sampled_from(["leftmost", "rightmost", "any"]))
    words = sorted(x for x in RC.lang_upto(spec, 4) if x)
    cls = draw(st.sampled_from(["key", "other_mode", "step_changed", "step_dropped", "steps_swapped", "wrong_word", "ill_formed"]))
    if not words:
        w = draw(st.text(alphabet=spec["T"], min_size=1, max_size=3))
        return {"cfg": spec, "w": w, "mode": mode, "answer": [[spec["S"]], list(w)], "answer_class": "no_derivation_exists"}
    w = words[draw(st.integers(0, len(words) - 1))]
    key = find_derivation(spec, w, mode)
    if key is None:
        return {"cfg": spec, "w": w, "mode": mode, "answer": [[spec["S"]], list(w)], "answer_class": "jump_to_word"}
    if cls == "key":
        ans = key
    elif cls == "other_mode":
        ans = find_derivation(spec, w, "rightmost" if mode != "rightmost" else "leftmost") or key
    elif cls == "step_changed" and len(key) > 2:
        ans = [list(f) for f in key]
        f = ans[draw(st.integers(1, len(ans) - 2))]
        f[draw(st.integers(0, len(f) - 1))] = (spec["V"] + spec["T"])[draw(st.integers(0, len(spec["V"]) + len(spec["T"]) - 1))]
    elif cls == "step_dropped" and len(key) > 2:
        i = draw(st.integers(1, len(key) - 2))
        ans = key[:i] + key[i + 1:]
    elif cls == "steps_swapped" and len(key) > 3:
        i = draw(st.integers(1, len(key) - 3))
        ans = key[:i] + [key[i + 1], key[i]] + key[i + 2:]
    elif cls == "wrong_word":
        other = [x for x in words if x != w]
        ans = find_derivation(spec, other[0], mode) if other else key[:-1]
        ans = ans or key[:-1]
    elif cls == "ill_formed":
        ans = draw(st.sampled_from(["", "=>", "S -> a", "S => => a", "S = > a"]))
    else:
        ans = key
        cls = "key"
    return {"cfg": spec, "w": w, "mode": mode, "answer": ans, "answer_class": cls, "explicit_mode": draw(st.booleans())}


# ---------------- Chomsky phases ----------------

def chomsky_criterion(G0, A, phase, S0, n):
    if RC.lang_upto(A, n) != RC.lang_upto(G0, n):
        return "the languages differ on %r" % sorted(RC.lang_upto(A, n) ^ RC.lang_upto(G0, n), key=len)[:3]
    V = set(A["V"])
    if phase >= 1 and A["S"] != S0:
        return "the start variable is %s instead of %s" % (A["S"], S0)
    for X, rhs in A["R"]:
        if phase >= 2 and not rhs and X != A["S"]:
            return "eps-rule for %s" % X
        if phase >= 3 and len(rhs) == 1 and rhs[0] in V:
            return "unit rule %s -> %s" % (X, rhs[0])
        if phase >= 4 and len(rhs) > 2:
            return "rule with more than two symbols"
        if phase >= 5 and not (len(rhs) == 0 or (len(rhs) == 1 and rhs[0] not in V) or (len(rhs) == 2 and rhs[0] in V and rhs[1] in V)):
            return "rule %s -> %s is not of the shape A -> a or A -> BC" % (X, "".join(rhs))
    return None


def run_chomsky(case):
    from bridge import cfg as BC
    G0, ans, phase, S0, n = case["cfg"], case["answer"], case["phase"], case["start"], case["n"]
    text = ans if isinstance(ans, str) else render("cfg", ans)
    ok, lines = verdict(NCH.cfg_check_chomsky, render("cfg", G0), text, phase, S0, n)
    why = "the answer is ill-formed" if isinstance(ans, str) else chomsky_criterion(G0, ans, phase, S0, n)
    crit = why is None
    if ok and not crit:
        raise Fail("ok_for_wrong_answer_chomsky_%d" % phase, "cfg_check_chomsky(phase %d, start %s) prints OK although %s; answer:\n%s\ngrammar:\n%s" % (phase, S0, why, text, render("cfg", G0)))
    if not isinstance(ans, str):
        check_feedback_words(lines, RC.lang_upto(ans, n), RC.lang_upto(G0, n), "cfg_check_chomsky")
    return {"nt": not crit, "cls": ["phase_%d" % phase, case["answer_class"], "verdict_ok" if ok else "verdict_error"], "out": {"verdict": lines[:1]}}


@st.composite
def chomsky_cases(draw, tier):
    from bridge import cfg as BC
    G0 = spec_of(draw, "cfg")
    phase = draw(st.integers(1, 5))
    S0 = draw(st.sampled_from(["T", "Z", "S"]))
    if S0 in G0["V"]:
        S0 = next(x for x in "ZYXWTUVQPONMLKJIHGFEDCBAS" if x not in G0["V"])      # the generated grammars have at most a handful of variables
    cls = draw(st.sampled_from(["library_key", "key_mutation", "key_mutation", "earlier_phase", "unchanged", "independent", "ill_formed"]))
    ans = None
    if cls in ("library_key", "key_mutation", "earlier_phase"):
        k = phase if cls != "earlier_phase" else draw(st.integers(0, phase - 1))
        try:
            cand = BC.snap_cfg(NCH.cfg_apply_chomsky(BC.mk_cfg(G0), k, S0)) if k else dict(G0)
            cand = RC.reduce(cand) if False else cand
            heads = {A for A, _ in cand["R"]}
            if all(len(v) == 1 and v.isupper() for v in cand["V"]) and cand["S"] in heads and all(x in heads or x in cand["T"] for _, r in cand["R"] for x in r):
                cand["V"] = sorted(heads)
                ans = cand
        except Exception:
            ans = None
        if ans is not None and cls == "key_mutation":
            ans = draw(GA.mutate_cfg(ans))
            heads = {A for A, _ in ans["R"]}
            if not all(x in heads or x in ans["T"] for _, r in ans["R"] for x in r) or ans["S"] not in heads:
                ans = None
    if ans is None:
        if cls == "ill_formed":
            ans = draw(st.sampled_from(GA.ILL_CFG))
        elif cls == "independent":
            ans = spec_of(draw, "cfg")
        else:
            ans, cls = dict(G0), "unchanged"
    return {"cfg": G0, "answer": ans, "answer_class": cls, "phase": phase, "start": S0, "n": draw(st.sampled_from([3, 4]))}


# ---------------- automata_checker and compare_languages ----------------

def run_given_language(case):
    kind, spec, words, n = case["kind"], case["spec"], case["words"], case["n"]
    fn = AC.check_dfa_for_given_language if kind == "dfa" else AC.check_nfa_for_given_language
    trans = [(p, a, q) for p, a, q in spec["d"]]
    language = " ".join(w if w else "ε" for w in words)
    res = lib(fn, set(spec["Q"]), trans, {spec["q0"]}, set(spec["F"]), language, n)
    if not isinstance(res, dict) or "correct" not in res:
        raise Fail("given_language_result", "unexpected result %r" % (res,))
    L = lang(kind, spec, n)
    crit = L == set(words)
    if res["correct"] is True and not crit:
        raise Fail("ok_for_wrong_answer_given_language_" + kind, "check_%s_for_given_language says correct although the languages differ on %r" % (kind, sorted(L ^ set(words), key=len)[:3]))
    fb = res.get("feedback", "")
    m = re.search(r"word '(.*)' (should not be accepted|is not accepted)", fb)
    if m:
        w = "" if m.group(1) == "ε" else m.group(1)
        if (m.group(2) == "should not be accepted") != (w in L - set(words)) or (m.group(2) == "is not accepted") != (w in set(words) - L):
            raise Fail("feedback_word_not_genuine", "check_%s_for_given_language reports %r, which is not a genuine difference" % (kind, fb))
    return {"nt": not crit, "cls": [kind, "correct" if res["correct"] else "incorrect"], "out": {"correct": res["correct"]}}


@st.composite
def given_language_cases(draw, tier):
    kind = draw(st.sampled_from(["dfa", "nfa"]))
    spec = spec_of(draw, kind)
    if kind == "nfa":
        # automaton_to_nfa without an epsilon item uses the documented default: ε if it occurs in a label, else _
        new_eps = draw(st.sampled_from(["ε", "_"]))
        spec = dict(spec, eps=new_eps, d=[[p, new_eps if a == spec["eps"] else a, q] for p, a, q in spec["d"]])
    n = draw(st.sampled_from([3, 4, 5]))
    L = sorted(lang(kind, spec, n))
    mode = draw(st.integers(0, 3))
    if mode == 1 and L:
        L = L[:-1]
    elif mode == 2:
        extra = draw(st.text(alphabet=spec["S"] or ["a"], max_size=n))
        L = sorted(set(L) | {extra})
    elif mode == 3 and L:
        L = L[1:]
    return {"kind": kind, "spec": spec, "words": L, "n": n}


def run_compare(case):
    A1, A2 = set(case["A1"]), set(case["A2"])
    fb = lib(LG.compare_languages, set(A1), set(A2))
    if not isinstance(fb, list):
        raise Fail("compare_type", "compare_languages returned %r" % (fb,))
    if (A1 == A2) != (fb == []):
        raise Fail("compare_languages_verdict", "compare_languages(%r, %r) = %r" % (sorted(A1), sorted(A2), fb))
    check_feedback_words(fb, A1, A2, "compare_languages")
    if fb and not any(re.search(r"word '(.*)' should (not )?be accepted", l) for l in fb):
        raise Fail("compare_languages_feedback", "feedback %r names no word" % (fb,))
    return {"nt": A1 != A2, "cls": ["equal" if A1 == A2 else ("only_missing" if A1 < A2 else ("only_extra" if A2 < A1 else "both"))], "out": {"feedback": fb}}


@st.composite
def compare_cases(draw, tier):
    w = st.text(alphabet="ab", max_size=4)
    A2 = draw(st.lists(w, max_size=6, unique=True))
    mode = draw(st.integers(0, 3))
    if mode == 0:
        A1 = list(A2)
    elif mode == 1:
        A1 = [x for x in A2 if draw(st.booleans())]
    elif mode == 2:
        A1 = A2 + draw(st.lists(w, max_size=3))
    else:
        A1 = draw(st.lists(w, max_size=6, unique=True))
    return {"A1": sorted(set(A1)), "A2": sorted(set(A2))}


CLAUSES += [
    Clause("product", product_cases, run_product, quick=350, thorough=3000,
           rule="check_dfa_union/intersection/symmetric_difference: key (full or reachable part), mutations (incl. invalid pair names), product for another operation, "
                "ill-formed; criterion: pair states, initial pair, synchronous transitions, accepting pairs of the operation, same alphabet, language = operation up to the length: " + R_COMMON),
    Clause("complement", complement_cases, run_complement, quick=400, thorough=3000,
           rule="check_dfa_complement: key (F flipped), mutations, the unchanged DFA, independent DFAs, ill-formed; criterion: same alphabet and complemented language: " + R_COMMON),
    Clause("reverse", reverse_cases, run_reverse, quick=400, thorough=3000,
           rule="check_dfa_reverse: key (reversed arrows + new initial state), mutations, the unreversed DFA, independent NFAs, ill-formed; criterion: mirrored language: " + R_COMMON),
    Clause("minimal", minimal_cases, run_minimal, quick=400, thorough=3000,
           rule="check_dfa_minimal: key from own Moore refinement, mutations, the unminimised DFA, independent, ill-formed; criterion: same language and (when every instance "
                "state is reachable) state count = Myhill-Nerode index: " + R_COMMON),
    Clause("nfa2dfa", nfa2dfa_cases, run_nfa2dfa, quick=1200, thorough=8000,
           rule="check_nfa2dfa: key from own subset construction, mutations, eps-move added, extra unreachable subset, ill-formed; criterion: total deterministic automaton "
                "without eps-moves over set labels, initial label = E(q0), exactly the NFA's language: " + R_COMMON),
    Clause("cyk", cyk_cases, run_cyk, quick=500, thorough=4000,
           rule="check_cyk_matrix: key table from the span fixpoint, one cell changed, table of a proper prefix, rows dropped, wrong row length, ill-formed; criterion: the exact table: " + R_COMMON),
    Clause("derivation", derivation_cases, run_derivation, quick=500, thorough=4000,
           rule="check_cfg_derivation x {leftmost, rightmost, any}: key from an own BFS, derivation of the other kind, changed / dropped / swapped steps, derivation of another word, "
                "ill-formed; criterion: own step validator: " + R_COMMON),
    Clause("chomsky", chomsky_cases, run_chomsky, quick=350, thorough=3000,
           rule="cfg_check_chomsky phases 1-5: candidates from the library pipeline (used only as candidates), mutations, earlier-phase grammars, unchanged / independent grammars, "
                "ill-formed; criterion: same words up to the length and the cumulative requirements of the exercise text: " + R_COMMON),
    Clause("given_language", given_language_cases, run_given_language, quick=400, thorough=3000,
           rule="automata_checker.check_dfa/nfa_for_given_language with exact, truncated and extended word lists; 'correct' implies equal languages up to the bound; feedback word genuine"),
    Clause("compare_languages", compare_cases, run_compare, quick=600, thorough=5000,
           rule="compare_languages on finite languages: empty feedback iff equal; reported word genuine, right polarity, minimal length in its class"),
]

# coverage-guided second driver (atheris / libFuzzer through Hypothesis' fuzz_one_input) for the core clauses: (clause, quick runs, thorough runs)
from harness.covfuzz import cov_clauses  # noqa: E402
CLAUSES += cov_clauses('C12', CLAUSES, [('lang_words', 1000, 6666), ('minimal', 1000, 6666)])
