"""C02 - bounded language enumeration is exact for every formalism."""
from hypothesis import strategies as st

from harness.engine import Clause, Fail, lib
from ref import pda as RP, regex as RX
from gen import fa as G, pda as GP, tm as GT, cfg as GC, regex as GR
from bridge import fa as B, pda as BP, tm as BT, cfg as BC, regex as BR

from gambatools.global_settings import GambaTools
from gambatools.language_generator import generate_language
from gambatools.dfa_algorithms import dfa_words_up_to_n, dfa_accepts_word
from gambatools.nfa_algorithms import nfa_words_up_to_n, nfa_accepts_word
from gambatools.pda_algorithms import pda_words_up_to_n, pda_accepts_word
from gambatools.tm_algorithms import tm_words_up_to_n, tm_accepts_word
from gambatools.cfg_algorithms import cfg_words_up_to_n, cfg_accepts_word
from gambatools.regexp_algorithms import regexp_words_up_to_n, regexp_accepts_word

ASSUMPTIONS = [
    "the oracle is differential as the property states it: the enumerator against the matching acceptance test of the library on every word of "
    "Sigma^<=n (the acceptance tests themselves are tied to independent references by C01/C05/C07/C09/C11)",
    "PDA: equality is asserted only when the reference's true closure sizes stay within the configured limit for every word up to n; "
    "otherwise only soundness of the enumerated words (exact reference) and the length bound",
    "single-character symbols; n <= 4 (5 for one-letter alphabets)",
]

bounds = st.sampled_from([0, 1, 0, 1, 2, 3, 4])


def compare(kind, enum, accept, S, n, obj, with_generate=True):
    got = lib(enum, obj, n)
    if not isinstance(got, set):
        raise Fail("type", "%s_words_up_to_n returned %r" % (kind, type(got)))
    for w in got:
        if not isinstance(w, str) or len(w) > n:
            raise Fail("too_long", "%s_words_up_to_n(n=%d) contains %r" % (kind, n, w))
        if any(c not in S for c in w):
            raise Fail("foreign_symbol", "%s_words_up_to_n(n=%d) contains %r which is not over the alphabet %r" % (kind, n, w, S))
    want = {w for w in G.all_words(S, n) if lib(accept, obj, w) is True}
    if got != want:
        raise Fail("enumeration", "%s_words_up_to_n(n=%d): extra %r, missing %r (w.r.t. %s_accepts_word)" % (kind, n, sorted(got - want, key=len)[:3], sorted(want - got, key=len)[:3], kind))
    if with_generate:
        gl = lib(generate_language, obj, n)
        if gl != got:
            raise Fail("generate_language", "generate_language differs from %s_words_up_to_n for n=%d" % (kind, n))
    total = len(G.all_words(S, n))
    return {"nt": n >= 1 and 0 < len(got) < total, "cls": ["n=%d" % n] + (["n_boundary"] if n <= 1 else []), "out": {"n": n, "enumerated": len(got), "of": total}}


def run_dfa(case):
    D = B.mk_dfa(case["dfa"])
    res = None
    for n in case.get("ns", [case["n"]]):        # several bounds on the same object
        r = compare("dfa", dfa_words_up_to_n, dfa_accepts_word, case["dfa"]["S"], n, D)
        if res is None or (r["nt"] and not res["nt"]):
            res = r
    if "ns" in case:
        res["cls"] = res["cls"] + ["routes_of_different_length"]
    return res


def run_nfa(case):
    return compare("nfa", nfa_words_up_to_n, nfa_accepts_word, case["nfa"]["S"], case["n"], B.mk_nfa(case["nfa"]))


def run_regexp(case):
    t = case["re"]
    return compare("regexp", regexp_words_up_to_n, regexp_accepts_word, sorted(RX.symbols(t)), case["n"], BR.mk(t))


def run_cfg(case):
    return compare("cfg", cfg_words_up_to_n, cfg_accepts_word, case["cfg"]["T"], case["n"], BC.mk_cfg(case["cfg"]))


def run_cfg_deep(case):
    return compare("cfg", cfg_words_up_to_n, cfg_accepts_word, case["cfg"]["T"], case["n"], BC.mk_cfg(case["cfg"]))


def run_tm(case):
    k = case["k"]
    return compare("tm", lambda T, n: tm_words_up_to_n(T, n, k), lambda T, w: tm_accepts_word(T, w, k), case["tm"]["S"], case["n"], BT.mk_tm(case["tm"]), with_generate=False)


@st.composite
def tm_default_cases(draw, tier):
    if draw(st.booleans()):
        return {"tm": draw(GT.walker_tm_specs()), "n": draw(st.sampled_from([0, 1, 2])), "k": 1000}
    return draw(tm_cases(tier))


def run_tm_default(case):
    # generate_language uses the default budget of 1000 steps on both sides
    return compare("tm", tm_words_up_to_n, tm_accepts_word, case["tm"]["S"], case["n"], BT.mk_tm(case["tm"]))


def run_pda(case):
    spec, n, limit = case["pda"], case["n"], case["limit"]
    P = BP.mk_pda(spec)
    old = GambaTools.pda_epsilon_closure_max_iterations
    GambaTools.pda_epsilon_closure_max_iterations = limit
    try:
        ws = G.all_words(spec["S"], n)
        within = all(max(RP.closure_sizes(spec, w, limit)) <= limit for w in ws)
        if not within:
            n = min(n, 2)      # the number of configurations grows geometrically per level under a truncated closure
            eps = spec["eps"]
            if sum(1 for p, a, u, q, v in spec["d"] if a == eps and u == eps and v != eps) >= 2:
                n = min(n, 1)  # several pushing eps-moves: the truncated closures branch, level 2 already takes minutes in the library
        if not within and limit > 30:
            # cost bound: with a truncated closure of ~1000 long-stack configurations per step the enumerator needs
            # minutes; the soundness-only assertion is the same for every limit, so it is exercised with limit 30
            limit = 30
            GambaTools.pda_epsilon_closure_max_iterations = limit
        if within:
            r = compare("pda", pda_words_up_to_n, pda_accepts_word, spec["S"], n, P)
            r["cls"].append("within_limit")
            return r
        got = lib(pda_words_up_to_n, P, n)
        for w in got:
            if len(w) > n:
                raise Fail("too_long", "pda_words_up_to_n(n=%d) contains %r" % (n, w))
            if not RP.accepts(spec, w):
                raise Fail("unsound_enumeration", "pda_words_up_to_n(n=%d, limit=%d) contains %r which has no accepting computation" % (n, limit, w))
        if lib(generate_language, P, n) != got:
            raise Fail("generate_language", "generate_language differs from pda_words_up_to_n")
        return {"nt": False, "cls": ["limit_hit", "n=%d" % n], "out": {"n": n, "limit": limit}}
    finally:
        GambaTools.pda_epsilon_closure_max_iterations = old


def run_wordset(case):
    L = set(case["L"])
    got = lib(generate_language, L, case["n"])
    if got != set(case["L"]):
        raise Fail("generate_language_set", "a set of strings is not returned unchanged")
    return {"nt": len(L) >= 2, "cls": [], "out": {}}


@st.composite
def dfa_cases(draw, tier):
    if draw(st.integers(0, 3)) == 0:
        # several routes of different lengths to acceptance, transition map inserted route by route (front-to-back or back-to-front)
        spec = draw(G.routes_dfa_specs())
        top = 7 if len(spec["S"]) == 2 else 5
        return {"dfa": spec, "n": top, "ns": list(range(top, 1, -1)) if draw(st.booleans()) else list(range(2, top + 1))}
    return {"dfa": draw(G.dfa_specs(max_states=5, max_sigma=2, odd=True)), "n": draw(bounds)}


@st.composite
def nfa_cases(draw, tier):
    return {"nfa": draw(G.nfa_specs(max_states=4, max_sigma=2, odd=True)), "n": draw(bounds)}


@st.composite
def regexp_cases(draw, tier):
    syms = draw(st.sampled_from([["a"], ["a", "b"], ["0", "1"], ["1", "a"]]))     # symbols named 0/1 are distinct from the constants
    return {"re": draw(GR.trees(syms, max_leaves=7)), "n": draw(bounds)}


@st.composite
def cfg_cases(draw, tier):
    k = draw(st.integers(0, 2))
    if k == 0:
        spec = draw(GC.cnf_specs(max_vars=4, max_rules=8))
    elif k == 1:
        spec = draw(GC.pseudo_cnf_specs())      # Chomsky-shaped rules, but not in Chomsky normal form
    else:
        spec = draw(GC.cfg_specs(max_vars=3, max_alts=2, max_len=3))
    return {"cfg": spec, "n": draw(st.sampled_from([0, 1, 0, 1, 2, 3, 4 if tier != "quick" else 3]))}


@st.composite
def cfg_deep_cases(draw, tier):
    three = draw(st.integers(0, 2)) == 0
    terms = ("a", "b", "c") if three else ("a", "b")
    spec = draw(st.one_of(GC.recursive_cnf_specs(terms=terms, max_vars=6), GC.mutual_recursion_cnf_specs(terms=terms)))
    return {"cfg": spec, "n": draw(st.sampled_from([4, 5] if three else [5, 6, 7]))}


@st.composite
def tm_cases(draw, tier):
    return {"tm": draw(GT.tm_specs(max_states=4)), "n": draw(st.sampled_from([0, 1, 2, 3])), "k": draw(st.sampled_from([0, 1, 3, 10, 50, 1000]))}


@st.composite
def pda_cases(draw, tier):
    spec = draw(GP.mixed_pda_specs(max_states=3, max_trans=6, odd=True))
    if not spec["F"] and draw(st.booleans()):
        spec["F"] = [spec["Q"][-1]]
    return {"pda": spec, "n": draw(st.sampled_from([0, 1, 2, 3])), "limit": draw(st.sampled_from([1, 2, 5, 30, 200] if tier == "quick" else [1, 2, 5, 30, 200, 1000]))}


@st.composite
def wordset_cases(draw, tier):
    return {"L": draw(st.lists(st.text(alphabet="ab", max_size=4), max_size=6, unique=True)), "n": draw(st.integers(0, 3))}


R = ("x bounds n in {0,1,2,3,4} (n=0 and n=1 with weight 1/2); enumerated set must equal {w in Sigma^<=n : accepts(w)}, contain nothing longer than n, "
     "and equal generate_language; non-trivial: n >= 1 and both accepted and rejected words exist")
CLAUSES = [
    Clause("dfa", dfa_cases, run_dfa, quick=600, thorough=5000, rule="random DFAs " + R),
    Clause("nfa", nfa_cases, run_nfa, quick=600, thorough=5000, rule="random NFAs " + R),
    Clause("regexp", regexp_cases, run_regexp, quick=600, thorough=5000, rule="random expression trees " + R),
    Clause("cfg", cfg_cases, run_cfg, quick=300, thorough=2500, rule="random CNF and arbitrary grammars " + R),
    Clause("cfg_deep", cfg_deep_cases, run_cfg_deep, quick=120, thorough=1200, watchdog=120,
           rule="mutually recursive CNF grammars (random with 3-6 variables, and a template of 2-3 mutually recursive variables with base cases of different lengths) over two or three terminals x larger bounds n in {4,...,7}: " + R),
    Clause("tm", tm_cases, run_tm, quick=400, thorough=3000, rule="random TMs x step budgets {0,1,3,10,50,1000} (same budget on both sides) " + R),
    Clause("tm_default_budget", tm_default_cases, run_tm_default, quick=60, thorough=400,
           rule="random TMs and 'walker' machines that need 150-1100 steps on short words, with the default budget of 1000 steps (the one generate_language uses) " + R),
    Clause("pda", pda_cases, run_pda, quick=350, thorough=3000, rule="random/structured PDAs x closure limits {1,2,5,30,200} (and 1000 in the thorough tier) " + R + "; when a closure exceeds the limit only soundness is asserted"),
    Clause("wordset", wordset_cases, run_wordset, quick=100, thorough=500, rule="generate_language on a set of strings returns it unchanged"),
]
from props import workbench as WB   # noqa: E402

CLAUSES.append(Clause("object_history", lambda tier: WB.fa_programs(tier, "enumerate"), WB.run_fa, quick=400, thorough=4000,
                      rule="(generate_language and *_words_up_to_n on DFA/NFA objects with a history: enumerated with the same bound before and after in-place modifications) " + WB.FA_RULE))
KNOWN_PREDICATES = {}

# coverage-guided second driver (atheris / libFuzzer through Hypothesis' fuzz_one_input) for the core clauses: (clause, quick runs, thorough runs)
from harness.covfuzz import cov_clauses  # noqa: E402
CLAUSES += cov_clauses('C02', CLAUSES, [('regexp', 1500, 10000), ('cfg', 800, 5000), ('pda', 800, 5000)])
