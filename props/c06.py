"""C06 - regexp->NFA and DFA->regexp conversions preserve the language exactly."""
from hypothesis import strategies as st

from harness.engine import Clause, Fail, lib
from ref import fa, regex as RX
from gen import fa as G, regex as GR
from bridge import fa as B, regex as BR

from gambatools.nfa import NFA
from gambatools.regexp import Regexp
from gambatools.regexp_algorithms import regexp_to_nfa, dfa_to_regexp

ASSUMPTIONS = ["symbols are single characters"]


def ref_dfa(t, S):
    return RX.to_dfa(t, S) if RX.size(t) <= 200 else RX.to_dfa2(t, S)


def run_r2n(case):
    t = case["re"]
    r = BR.mk(t)
    N = lib(regexp_to_nfa, r)
    if not isinstance(N, NFA):
        raise Fail("type", "regexp_to_nfa returned %r" % type(N))
    snap = B.snap_nfa(N)
    err = fa.valid_nfa_snapshot(snap)
    if err:
        raise Fail("invalid_nfa", err)
    if not RX.symbols(t) <= set(snap["S"]):
        raise Fail("alphabet", "symbols %r of the expression are missing from the NFA alphabet %r" % (sorted(RX.symbols(t) - set(snap["S"])), snap["S"]))
    S = sorted(snap["S"])
    w = fa.equiv(fa.determinise(snap, alphabet=S), ref_dfa(t, S))
    if w is not None:
        raise Fail("language", "NFA of %s differs from the denotation on word %r" % (RX.render_full(t), w), word=w)
    if BR.snap(r) != t:
        raise Fail("mutates_argument", "regexp_to_nfa changed its argument")
    stars = str(t).count("'*'")
    bins = str(t).count("'+'") + str(t).count("'.'")
    return {"nt": stars >= 1 and bins >= 1, "cls": ["has_star"] if stars else [], "out": {"nfa_states": len(snap["Q"])}}


def run_d2r(case):
    spec = case["dfa"]
    D = B.mk_dfa(spec)
    before = B.canon(spec)
    if case.get("logging"):
        import contextlib
        import io
        from gambatools.global_settings import GambaTools
        old = GambaTools.enable_logging
        GambaTools.enable_logging = True
        try:
            with contextlib.redirect_stdout(io.StringIO()):
                r = lib(dfa_to_regexp, D)
        finally:
            GambaTools.enable_logging = old
    else:
        r = lib(dfa_to_regexp, D)
    if not isinstance(r, Regexp):
        raise Fail("type", "dfa_to_regexp returned %r" % type(r))
    t = BR.snap(r)
    S = sorted(spec["S"])
    if not RX.symbols(t) <= set(S):
        raise Fail("alphabet", "expression uses symbols %r outside the DFA alphabet" % sorted(RX.symbols(t) - set(S)))
    A = fa.rdfa(spec)
    w = fa.equiv(ref_dfa(t, S), A)
    if w is not None:
        raise Fail("language", "extracted expression differs from the DFA on word %r (DFA accepts: %r)" % (w, fa.accepts_rdfa(A, w)), word=w)
    if B.snap_dfa(D) != before:
        raise Fail("mutates_argument", "dfa_to_regexp changed its argument")
    c = fa.canonical_min(A)
    cls = ["states_%d" % len(spec["Q"])] + (["logging_on"] if case.get("logging") else [])
    if set(spec["Q"]) & {"start", "accept"}:
        cls.append("state_named_start_or_accept")
    return {"nt": len(fa.reachable(A)) >= 2 and len(c[1]) >= 2, "cls": cls, "out": {"regexp_nodes": RX.size(t)}}


@st.composite
def r2n_cases(draw, tier):
    syms = draw(st.sampled_from([["a"], ["a", "b"], ["a", "b", "c"], ["0", "1"], ["a", "_"], ["e", "ε"]]))      # legal symbols that look like epsilon symbols
    return {"re": draw(GR.trees(syms, max_leaves=12))}


GNFA_NAMES = ["start", "accept", "start0", "accept0", "start1", "accept1", "q0", "q1"]


@st.composite
def d2r_cases(draw, tier):
    case = draw(d2r_cases0(tier))
    if draw(st.integers(0, 7)) == 0:
        case["logging"] = True         # GambaTools.enable_logging on (output swallowed): the result must be the same kind of answer
    return case


@st.composite
def d2r_cases0(draw, tier):
    if draw(st.integers(0, 7)) == 0:
        # state names that coincide with the names dfa_to_gnfa gives to the two states it adds
        return {"dfa": draw(G.dfa_specs(min_states=2, max_states=5, max_sigma=2, pool=GNFA_NAMES)), "gnfa_names": True}
    if draw(st.integers(0, 2)) == 0:
        # hubs connected by words and their rotations: eliminated intermediate states leave concatenations like a.b next to b.a
        return {"dfa": draw(G.word_graph_dfa_specs())}
    if draw(st.integers(0, 3)) == 0:
        return {"dfa": draw(G.dfa_specs(max_states=3, sigma=["a", "b", "c"]))}      # three symbols: parallel edges with a different edge in between
    return {"dfa": draw(G.dfa_specs(max_states=4 if tier == "quick" else 5, max_sigma=2))}


def ex_r2n(tier):
    n = 5 if tier == "quick" else 6
    return ("all expression trees with <= %d nodes over atoms {0,1,a,b}" % n, ({"re": t} for t in GR.all_trees(n)))


def ex_d2r(tier):
    if tier == "quick":
        return ("all DFAs with <= 2 states over {a,b}", ({"dfa": s} for s in G.all_dfas(2, ["a", "b"])))
    return ("all DFAs with <= 3 states over {a,b}", ({"dfa": s} for s in G.all_dfas(3, ["a", "b"])))


CLAUSES = [
    Clause("regexp_to_nfa", r2n_cases, run_r2n, quick=2000, thorough=8000, exhaustive=ex_r2n,
           rule="random trees (<= 12 leaves); NFA snapshot valid and exactly equivalent (own subset construction + product walk) to the "
                "derivative automaton of the tree; non-trivial: >= 1 star and >= 1 binary operator"),
    Clause("dfa_to_regexp", d2r_cases, run_d2r, quick=1500, thorough=5000, exhaustive=ex_d2r,
           rule="random DFAs (1-5 states, renamed, several hash seeds for the elimination order); derivative automaton of the extracted expression "
                "exactly equivalent to the DFA; non-trivial: >= 2 reachable states and language neither empty nor full"),
]
from props import workbench as WB   # noqa: E402


def run_r2n_sequence(case):
    """Several expressions are converted first; only then every NFA is validated (results handed out earlier must not be affected by later calls)."""
    nfas = []
    first = []
    for t in case["res"]:
        N = lib(regexp_to_nfa, BR.mk(t))
        nfas.append((t, N))
        first.append(B.snap_nfa(N))
    for (t, N), snap0 in zip(nfas, first):
        snap = B.snap_nfa(N)
        if snap != snap0:
            diff = [k for k in snap0 if snap.get(k) != snap0[k]]
            raise Fail("sequence_result_changed", "the NFA returned for %s was changed by later conversions (fields %s: %r -> %r)" %
                       (RX.render_full(t), diff, {k: snap0[k] for k in diff}, {k: snap[k] for k in diff}))
        err = fa.valid_nfa_snapshot(snap)
        if err:
            raise Fail("sequence_invalid_nfa", "the NFA of %s is invalid after later conversions: %s" % (RX.render_full(t), err))
        if not RX.symbols(t) <= set(snap["S"]):
            raise Fail("sequence_alphabet", "after later conversions the NFA of %s has alphabet %r" % (RX.render_full(t), snap["S"]))
        S = sorted(snap["S"])
        w = fa.equiv(fa.determinise(snap, alphabet=S), ref_dfa(t, S))
        if w is not None:
            raise Fail("sequence_language", "after later conversions the NFA of %s differs from the denotation on %r" % (RX.render_full(t), w))
    return {"nt": len(nfas) >= 2, "cls": ["n_%d" % len(nfas)], "out": {}}


@st.composite
def r2n_sequence_cases(draw, tier):
    out = []
    for _ in range(draw(st.integers(2, 4))):
        syms = draw(st.sampled_from([["a"], ["a", "b"], ["b", "c"], ["c"]]))
        if draw(st.integers(0, 2)) == 0:
            # single-character symbols that (almost certainly) no earlier conversion in this process has seen
            k = draw(st.integers(0, 20000))
            syms = [chr(0x4E00 + k), chr(0x4E00 + (k + 1) % 20001)]
        out.append(draw(GR.trees(syms, max_leaves=draw(st.sampled_from([1, 1, 2, 5])))))
    return {"res": out}


CLAUSES.append(Clause("regexp_to_nfa_sequence", r2n_sequence_cases, run_r2n_sequence, quick=600, thorough=5000,
                      rule="2-4 expressions over different alphabets (many of them atoms or single stars) are converted one after the other; afterwards every NFA must still be "
                           "valid, contain the symbols of its expression and accept exactly its language"))
CLAUSES.append(Clause("object_history", lambda tier: WB.fa_programs(tier, "regexp"), WB.run_fa, quick=400, thorough=4000,
                      rule="(dfa_to_regexp on DFA objects with a history: converted, modified in place, converted again) " + WB.FA_RULE))
KNOWN_PREDICATES = {}

# coverage-guided second driver (atheris / libFuzzer through Hypothesis' fuzz_one_input) for the core clauses: (clause, quick runs, thorough runs)
from harness.covfuzz import cov_clauses  # noqa: E402
CLAUSES += cov_clauses('C06', CLAUSES, [('regexp_to_nfa', 3000, 20000), ('dfa_to_regexp', 1500, 10000)])
