"""C01 - DFA and NFA word acceptance / epsilon closure equal the textbook definition."""
from hypothesis import strategies as st

from harness.engine import Clause, Fail, lib
from ref import fa
from gen import fa as G
from bridge import fa as B

from gambatools.dfa_algorithms import dfa_accepts_word
from gambatools.nfa_algorithms import nfa_accepts_word, epsilon_closure

ASSUMPTIONS = [
    "symbols are single characters; state names match \\w+",
    "NFA transition maps are built in the three representations the library itself produces "
    "(defaultdict(set), total dict with empty sets, defaultdict(lambda)); a plain partial dict is not generated",
    "words range over the automaton's own alphabet",
]


def _nfa_classes(spec):
    cls = []
    eps = spec["eps"]
    has_eps = any(a == eps for _, a, _ in spec["d"])
    if has_eps:
        cls.append("has_eps")
        for q in spec["Q"]:
            succ = [t for p, a, t in spec["d"] if p == q and a == eps]
            if any(q in fa.eclose(spec, {t}) for t in succ):
                cls.append("eps_cycle")
                break
    keys = {}
    for p, a, q in spec["d"]:
        keys.setdefault((p, a), set()).add(q)
    if any(len(v) > 1 for v in keys.values()):
        cls.append("nondet")
    if not spec["F"]:
        cls.append("F_empty")
    if len(keys) < len(spec["Q"]) * (len(spec["S"]) + 1):
        cls.append("partial")
    R = fa.determinise(spec)
    reach = set().union(*R["Q"]) if R["Q"] else set()
    if len(reach) < len(spec["Q"]):
        cls.append("unreachable_states")
    return cls


def run_dfa(case):
    spec = case["dfa"]
    D = B.mk_dfa(spec)
    L = G.word_bound(spec["S"])
    ws = G.all_words(spec["S"], L) + list(case.get("words", []))
    acc = 0
    for w in ws:
        got = lib(dfa_accepts_word, D, w)
        want = fa.nfa_accepts(spec, w)
        if got is not want:
            raise Fail("dfa_accepts_word", "dfa_accepts_word(%r) = %r, definition says %r" % (w, got, want), word=w)
        acc += want
    A = fa.rdfa(spec)
    nreach = len(fa.reachable(A))
    cls = ["accepts_some"] if acc else ["accepts_none"]
    if nreach < len(spec["Q"]):
        cls.append("unreachable_states")
    return {"nt": nreach >= 2 and 0 < acc < len(ws), "cls": cls, "out": {"words": len(ws), "accepted": acc}}


def run_nfa(case):
    spec = case["nfa"]
    N = B.mk_nfa(spec)
    before = B.canon(spec)
    L = G.word_bound(spec["S"], cap=70)
    ws = list(case["words"]) if case.get("only_words") else G.all_words(spec["S"], L) + list(case.get("words", []))
    acc = 0
    for w in ws:
        got = lib(nfa_accepts_word, N, w)
        want = fa.nfa_accepts(spec, w)
        if got is not want:
            raise Fail("nfa_accepts_word", "nfa_accepts_word(%r) = %r, definition says %r" % (w, got, want), word=w)
        acc += want
    if B.snap_nfa(N) != before:
        raise Fail("nfa_accepts_word_mutates", "argument NFA changed")
    cls = _nfa_classes(spec) if len(spec["Q"]) <= 50 else ["large"]
    nt = len(spec["Q"]) >= 2 and ("has_eps" in cls or "nondet" in cls or "large" in cls) and 0 < acc < len(ws)
    return {"nt": nt, "cls": cls, "out": {"words": len(ws), "accepted": acc}}


def run_eclose(case):
    spec = case["nfa"]
    N = B.mk_nfa(spec)
    subsets = [list(s) for s in case.get("subsets", [])]
    sizes = 0
    for q in spec["Q"]:
        want = fa.eclose(spec, {q})
        for name, fn in (("epsilon_closure", lambda: epsilon_closure(N, q)), ("NFA.E", lambda: N.E(q))):
            got = lib(fn)
            if got != want:
                raise Fail(name + "_state", "%s(%r) = %r, reachable by eps moves: %r" % (name, q, sorted(got), sorted(want)))
        sizes = max(sizes, len(want))
    for s in subsets + [[], list(spec["Q"])]:
        want = fa.eclose(spec, set(s))
        for name, fn in (("epsilon_closure", epsilon_closure), ("NFA.E", lambda N_, x: N_.E(x))):
            arg = set(s)
            got = lib(fn, N, arg)
            if got != want:
                raise Fail(name + "_set", "%s(%r) = %r, reachable by eps moves: %r" % (name, sorted(s), sorted(got), sorted(want)))
            if arg != set(s):
                raise Fail(name + "_mutates_arg", "the argument set %r was changed to %r" % (sorted(s), sorted(arg)))
    cls = _nfa_classes(spec)
    return {"nt": sizes >= 3 or ("eps_cycle" in cls and sizes >= 2), "cls": cls, "out": {"max_closure": sizes}}


@st.composite
def dfa_cases(draw, tier):
    spec = draw(G.dfa_specs(max_states=6, odd=True))
    ws = draw(st.lists(G.words(spec["S"], 10), max_size=3))
    return {"dfa": spec, "words": ws}


@st.composite
def nfa_cases(draw, tier):
    spec = draw(G.mixed_nfa_specs(max_states=5 if tier == "quick" else 7, odd=True))
    ws = draw(st.lists(G.words(spec["S"], 9), max_size=3))
    return {"nfa": spec, "words": ws}


@st.composite
def eclose_cases(draw, tier):
    spec = draw(st.one_of(G.nfa_specs(max_states=6, max_sigma=1), G.chain_nfa_specs()))
    subs = draw(st.lists(st.lists(st.sampled_from(spec["Q"]), unique=True, max_size=3), max_size=3))
    return {"nfa": spec, "subsets": subs}


def large_nfas(tier):
    """Long symbol chains and eps-chains (300..2500 states) with the words that reach their accepting states."""
    for i, n in enumerate([300, 1100] if tier == "quick" else [300, 1100, 1500]):
        Q = ["q%d" % k for k in range(n)]
        eps = ["", "ε"][i % 2]
        chain = {"Q": Q, "S": ["a"], "d": [[Q[k], "a", Q[k + 1]] for k in range(n - 1)], "q0": Q[0], "F": [Q[n - 1], Q[n // 2]], "eps": eps, "rep": "dd_set"}
        yield {"nfa": chain, "words": ["", "a" * (n // 2), "a" * (n - 1), "a" * (n - 2), "a" * n], "only_words": True}
        echain = {"Q": Q, "S": ["a"], "d": [[Q[k], eps, Q[k + 1]] for k in range(n - 1)] + [[Q[n - 1], "a", Q[1]]], "q0": Q[0], "F": [Q[n // 3]], "eps": eps, "rep": "dd_lambda"}
        yield {"nfa": echain, "words": ["", "a", "aaa"], "only_words": True}


def ex_nfa(tier):
    if tier == "quick":
        def genq():
            for s in G.all_nfas(2, ["a"]):
                yield {"nfa": s, "words": []}
            for c in large_nfas(tier):
                yield c
        return ("all NFAs with 2 states over {a} with eps-moves, all words <= 6; plus chains / eps-chains of 300 and 1100 states", genq())
    def gen():
        for s in G.all_nfas(2, ["a"]):
            yield {"nfa": s, "words": []}
        for s in G.all_nfas(2, ["a", "b"], eps=""):
            yield {"nfa": s, "words": []}
        for c in large_nfas(tier):
            yield c
    return ("all NFAs with 2 states over {a} and over {a,b} with eps-moves (1024 + 16384), all words up to the bound; plus chains / eps-chains of 300..1500 states", gen())


def ex_dfa(tier):
    n = 2 if tier == "quick" else 3
    return ("all DFAs with <= %d states over {a,b}, all words <= 5" % n, ({"dfa": s, "words": []} for s in G.all_dfas(n, ["a", "b"])))


def ex_eclose(tier):
    return ("all NFAs with 2 states over {a} with eps-moves", ({"nfa": s, "subsets": [["q0"], ["q1"]]} for s in G.all_nfas(2, ["a"])))


CLAUSES = [
    Clause("dfa_accept", dfa_cases, run_dfa, quick=1200, thorough=8000, exhaustive=ex_dfa,
           rule="random DFA specs (1-6 states, 0-3 symbols, renamed states) x all words up to a length bound + generated longer words; "
                "non-trivial: >= 2 reachable states and both accepted and rejected words; distinct by digest of spec+words"),
    Clause("nfa_accept", nfa_cases, run_nfa, quick=1200, thorough=8000, exhaustive=ex_nfa,
           rule="random NFA specs (3 map representations, 4 eps symbols) x all words up to a bound; non-trivial: >= 2 states, "
                "an eps-move or a non-deterministic choice, both verdicts occur"),
    Clause("eclose", eclose_cases, run_eclose, quick=1200, thorough=8000, exhaustive=ex_eclose,
           rule="random NFA specs; epsilon_closure and NFA.E for every state and generated subsets; non-trivial: a closure of size >= 3 or an eps-cycle"),
]

from props import workbench as WB   # noqa: E402

CLAUSES.append(Clause("object_history", lambda tier: WB.fa_programs(tier, "accept"), WB.run_fa, quick=500, thorough=5000, rule=WB.FA_RULE))
KNOWN_PREDICATES = {}

# coverage-guided second driver (atheris / libFuzzer through Hypothesis' fuzz_one_input) for the core clauses: (clause, quick runs, thorough runs)
from harness.covfuzz import cov_clauses  # noqa: E402
CLAUSES += cov_clauses('C01', CLAUSES, [('nfa_accept', 3000, 20000), ('dfa_accept', 1500, 10000), ('object_history', 1500, 10000)])
