#!/bin/sh
# Offline setup: make sure hypothesis is importable for /venv/bin/python, then run the oracle self-test.
set -e
cd "$(dirname "$0")"
if ! PYTHONPATH=.deps /venv/bin/python -c "import hypothesis" 2>/dev/null; then
    mkdir -p .deps
    /venv/bin/pip install --no-index --find-links /opt/veriftools/wheels --target .deps hypothesis
fi
# optional second driver (coverage-guided fuzzing of the parsers); the C17 clause reports "skipped" if it is unavailable
if ! PYTHONPATH=.deps /venv/bin/python -c "import atheris" 2>/dev/null; then
    mkdir -p .deps
    /venv/bin/pip install --no-index --find-links /opt/veriftools/wheels --target .deps atheris || true
fi
PYTHONPATH=.deps PYTHONHASHSEED=0 /venv/bin/python harness/selftest.py
