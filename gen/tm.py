"""Strategies for deterministic TM specs."""
from hypothesis import strategies as st

from gen.fa import POOL, names

BLANKS = ["_", "□", "B"]
EXTRA = ["x", "X", "#", "$", "%", "~", "!", "@", "^", "&", "*"]


@st.composite
def tm_specs(draw, max_states=5, sigma=None, halting_initial=True, pool=POOL):
    n = draw(st.integers(2, max_states))
    Q = draw(names(n, pool))
    S = list(sigma) if sigma is not None else draw(st.sampled_from([["a"], ["a", "b"], ["0", "1"], []]))
    blank = draw(st.sampled_from(BLANKS))
    G = S + [blank] + draw(st.lists(st.sampled_from(EXTRA), max_size=1))
    acc, rej = Q[-1], Q[-2]
    q0 = Q[0]
    if halting_initial and draw(st.integers(0, 11)) == 0:
        q0 = draw(st.sampled_from([acc, rej]))
    d = []
    for p in Q:
        if p in (acc, rej):
            continue
        for a in G:
            if draw(st.integers(0, 9)) < 7:
                q = Q[draw(st.integers(0, n - 1))]
                b = G[draw(st.integers(0, len(G) - 1))]
                m = "L" if draw(st.integers(0, 2)) == 0 else "R"
                d.append([p, a, q, b, m])
    return {"Q": Q, "S": S, "G": G, "d": d, "q0": q0, "acc": acc, "rej": rej, "blank": blank}


@st.composite
def walker_tm_specs(draw, lengths=(150, 450, 950, 1100)):
    """Machines that need many steps on short words: a chain of k states walks k cells to the right and then accepts
    (or rejects / keeps running on a self loop), whatever it reads."""
    k = draw(st.sampled_from(list(lengths)))
    S = draw(st.sampled_from([["a"], ["a", "b"]]))
    blank = draw(st.sampled_from(BLANKS))
    G = S + [blank]
    Q = ["w%d" % i for i in range(k)] + ["yes", "no"]
    end = draw(st.sampled_from(["accept", "accept", "reject", "loop"]))
    d = []
    for i in range(k):
        for a in G:
            nxt = Q[i + 1] if i + 1 < k else ("yes" if end == "accept" else ("no" if end == "reject" else Q[i]))
            d.append([Q[i], a, nxt, a, "R"])
    first_reject = draw(st.booleans()) and len(S) == 2
    if first_reject:
        d = [t for t in d if not (t[0] == Q[0] and t[1] == S[1])]     # words starting with the second symbol are rejected at once (missing transition)
    return {"Q": Q, "S": S, "G": G, "d": d, "q0": Q[0], "acc": "yes", "rej": "no", "blank": blank}
