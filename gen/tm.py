"""Strategies for deterministic TM specs."""
from hypothesis import strategies as st

from gen.fa import POOL, names

BLANKS = ["_", "□", "B"]
EXTRA = ["x", "X", "#", "$", "%", "~", "!", "@", "^", "&", "*"]


@st.composite
def tm_specs(draw, max_states=5, sigma=None, halting_initial=True):
    n = draw(st.integers(2, max_states))
    Q = draw(names(n, POOL))
    S = list(sigma) if sigma is not None else draw(st.sampled_from([["a"], ["a", "b"], ["0", "1"], []]))
    blank = draw(st.sampled_from(BLANKS))
    G = S + [blank] + draw(st.lists(st.sampled_from(EXTRA), max_size=1))
    acc, rej = Q[-1], Q[-2]
    q0 = Q[0]
    if halting_initial and draw(st.integers(0, 11)) == 0:
        q0 = draw(st.sampled_from([acc, rej]))
    d = []
    for p in Q:
        if p in (acc, rej):
            continue
        for a in G:
            if draw(st.integers(0, 9)) < 7:
                q = Q[draw(st.integers(0, n - 1))]
                b = G[draw(st.integers(0, len(G) - 1))]
                m = "L" if draw(st.integers(0, 2)) == 0 else "R"
                d.append([p, a, q, b, m])
    return {"Q": Q, "S": S, "G": G, "d": d, "q0": q0, "acc": acc, "rej": rej, "blank": blank}
