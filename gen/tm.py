"""Strategies for deterministic TM specs."""
from hypothesis import strategies as st

from gen.fa import POOL, names

BLANKS = ["_", "□", "B"]
EXTRA = ["x", "X", "#", "$", "%", "~", "!", "@", "^", "&", "*"]


@st.composite
def tm_specs(draw, max_states=5, sigma=None, halting_initial=True, pool=POOL, halting_moves=False):
    # Q = working states + reject + accept; at least one working state (with n == 2 the initial state would be the rejecting state)
    n = draw(st.integers(3, max(3, max_states)))
    Q = draw(names(n, pool))
    S = list(sigma) if sigma is not None else draw(st.sampled_from([["a"], ["a", "b"], ["0", "1"], []]))
    blank = draw(st.sampled_from(BLANKS))
    # an extra tape symbol; one time in six a character that is the blank symbol of other machines
    extra = [x for x in EXTRA + (["□", "_", "□"] if draw(st.integers(0, 5)) == 0 else []) if x != blank]
    G = S + [blank] + draw(st.lists(st.sampled_from(extra), max_size=1))
    acc, rej = Q[-1], Q[-2]
    q0 = Q[0]
    if halting_initial and draw(st.integers(0, 11)) == 0:
        q0 = draw(st.sampled_from([acc, rej]))
        if draw(st.booleans()):
            Q = [rej, acc]          # no working states at all
            n = 2
    d = []
    for p in Q:
        if p in (acc, rej):
            continue
        for a in G:
            if draw(st.integers(0, 9)) < 7:
                q = Q[draw(st.integers(0, n - 1))]
                b = G[draw(st.integers(0, len(G) - 1))]
                m = "L" if draw(st.integers(0, 2)) == 0 else "R"
                d.append([p, a, q, b, m])
    if halting_moves and draw(st.integers(0, 4)) == 0:
        # entries of the transition table for the halting states: legal (delta is a function on Q x Gamma), never used by a computation
        for p in (acc, rej):
            for a in G:
                if draw(st.integers(0, 2)) == 0:
                    d.append([p, a, Q[draw(st.integers(0, n - 1))], G[draw(st.integers(0, len(G) - 1))], "L" if draw(st.booleans()) else "R"])
    return {"Q": Q, "S": S, "G": G, "d": d, "q0": q0, "acc": acc, "rej": rej, "blank": blank}


@st.composite
def walker_tm_specs(draw, lengths=(150, 450, 950, 1100)):
    """Machines that need many steps on short words: a chain of k states walks k cells to the right and then accepts
    (or rejects / keeps running on a self loop), whatever it reads."""
    k = draw(st.sampled_from(list(lengths)))
    if k >= 900 and draw(st.booleans()):
        k = draw(st.integers(990, 1010))         # around the default budget of 1000 steps
    S = draw(st.sampled_from([["a"], ["a", "b"]]))
    blank = draw(st.sampled_from(BLANKS))
    G = S + [blank]
    Q = ["w%d" % i for i in range(k)] + ["yes", "no"]
    end = draw(st.sampled_from(["accept", "accept", "reject", "loop"]))
    d = []
    for i in range(k):
        for a in G:
            nxt = Q[i + 1] if i + 1 < k else ("yes" if end == "accept" else ("no" if end == "reject" else Q[i]))
            d.append([Q[i], a, nxt, a, "R"])
    first_reject = draw(st.booleans()) and len(S) == 2
    if first_reject:
        d = [t for t in d if not (t[0] == Q[0] and t[1] == S[1])]     # words starting with the second symbol are rejected at once (missing transition)
    return {"Q": Q, "S": S, "G": G, "d": d, "q0": Q[0], "acc": "yes", "rej": "no", "blank": blank}


# ---- textbook machines: many steps, left moves, bouncing at the left end, blank writes ----

def _anbn(blank):
    X, Y = "X", "Y"
    d = [["s0", "a", "s1", X, "R"], ["s0", Y, "s3", Y, "R"], ["s0", blank, "yes", blank, "R"],
         ["s1", "a", "s1", "a", "R"], ["s1", Y, "s1", Y, "R"], ["s1", "b", "s2", Y, "L"],
         ["s2", "a", "s2", "a", "L"], ["s2", Y, "s2", Y, "L"], ["s2", X, "s0", X, "R"],
         ["s3", Y, "s3", Y, "R"], ["s3", blank, "yes", blank, "R"]]
    return {"Q": ["s0", "s1", "s2", "s3", "yes", "no"], "S": ["a", "b"], "G": ["a", "b", blank, X, Y], "d": d,
            "q0": "s0", "acc": "yes", "rej": "no", "blank": blank}


def _left_bouncer(blank, k, explicit_reject):
    """walk right to the first blank, make k+1 left moves (bouncing at cell 0 when the word is shorter), accept iff the cell read then holds 'a'"""
    G = ["a", "b", blank]
    Q = ["r"] + ["l%d" % i for i in range(k + 1)] + ["yes", "no"]
    d = [["r", "a", "r", "a", "R"], ["r", "b", "r", "b", "R"], ["r", blank, "l0", blank, "L"]]
    for i in range(k):
        d += [["l%d" % i, g, "l%d" % (i + 1), g, "L"] for g in G]
    d.append(["l%d" % k, "a", "yes", "a", "R"])
    if explicit_reject:
        d.append(["l%d" % k, "b", "no", "b", "L"])
    return {"Q": Q, "S": ["a", "b"], "G": G, "d": d, "q0": "r", "acc": "yes", "rej": "no", "blank": blank}


def _eraser(blank, back):
    """overwrite the word with blanks, walk `back` cells back over the blanks, write a symbol, accept"""
    G = ["a", "b", blank]
    Q = ["e"] + ["f%d" % i for i in range(back + 1)] + ["yes", "no"]
    d = [["e", "a", "e", blank, "R"], ["e", "b", "e", blank, "R"], ["e", blank, "f0", blank, "L"]]
    for i in range(back):
        d.append(["f%d" % i, blank, "f%d" % (i + 1), blank, "L"])
    d.append(["f%d" % back, blank, "yes", "a", "L"])
    return {"Q": Q, "S": ["a", "b"], "G": G, "d": d, "q0": "e", "acc": "yes", "rej": "no", "blank": blank}


def _spinner(blank, period):
    """never halts: cycles through `period` states moving right and left alternately"""
    G = ["a", blank]
    Q = ["c%d" % i for i in range(period)] + ["yes", "no"]
    d = []
    for i in range(period):
        for g in G:
            d.append(["c%d" % i, g, "c%d" % ((i + 1) % period), g, "R" if i % 2 == 0 else "L"])
    return {"Q": Q, "S": ["a"], "G": G, "d": d, "q0": "c0", "acc": "yes", "rej": "no", "blank": blank}


@st.composite
def textbook_tm_specs(draw):
    blank = draw(st.sampled_from(BLANKS))
    k = draw(st.integers(0, 5))
    if k == 0:
        spec = _anbn(blank)
    elif k == 1:
        spec = _left_bouncer(blank, draw(st.integers(0, 6)), draw(st.booleans()))
    elif k == 2:
        spec = _eraser(blank, draw(st.integers(0, 4)))
    elif k == 3:
        spec = _spinner(blank, draw(st.integers(1, 4)))
    elif k == 4:
        spec = draw(walker_tm_specs(lengths=(3, 7, 20, 60)))
    else:
        spec = draw(tm_specs(max_states=5, sigma=["a", "b"], halting_initial=False))
    if draw(st.integers(0, 3)) == 0 and spec["d"]:
        # drop or redirect one transition: the machine is no longer the textbook one, the oracle decides
        spec = dict(spec, d=[list(t) for t in spec["d"]])
        i = draw(st.integers(0, len(spec["d"]) - 1))
        if draw(st.booleans()):
            del spec["d"][i]
        else:
            spec["d"][i][4] = "L" if spec["d"][i][4] == "R" else "R"
    if len(spec["Q"]) <= 10 and draw(st.integers(0, 2)) == 0:
        # rename the states (numbered / ambiguous name pools)
        new = draw(names(len(spec["Q"]), POOL))
        m = dict(zip(spec["Q"], new))
        spec = dict(spec, Q=new, d=[[m[p], a, m[q], b, mv] for p, a, q, b, mv in spec["d"]], q0=m[spec["q0"]], acc=m[spec["acc"]], rej=m[spec["rej"]])
    return spec
