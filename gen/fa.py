"""Hypothesis strategies and exhaustive enumerators for DFA / NFA specs (plain data)."""
import itertools

from hypothesis import strategies as st

# state-name pool: \w+ names; deliberately contains the names the library's fresh-name helpers produce
POOL = ["q0", "q1", "q2", "q3", "q4", "q5", "q6", "q7", "p0", "p1", "s", "t", "u", "A", "b1", "z9", "start0",
        "P1", "M1", "trap1", "q_accept", "q_initial", "q8", "q9", "0", "1", "x", "q10", "P2", "trap2",
        # names that are another name followed by an alphabet symbol / by themselves (string-keyed caches, concatenated names)
        "q", "qa", "qb", "q00", "q01", "11", "qq"]
SYMS = ["a", "b", "0", "1", "c"]
EPS = ["", "ε", "_", "e"]
EPS_NFA = EPS + ["eps", "lambda", "ea"]      # "any epsilon symbol": also multi-character ones that contain alphabet symbols
REPS = ["dd_set", "total_dict", "dd_lambda"]


@st.composite
def names(draw, n, pool=POOL):
    """n distinct state names.  Mostly from the pool; one time in six consecutive numbered names that cross a digit boundary
    (q8 q9 q10 q11, s99 s100, ...): lexicographic and numeric order differ there, and fresh-name helpers count upwards."""
    mode = draw(st.integers(0, 7)) if pool is POOL else 9
    if mode == 0:
        prefix = draw(st.sampled_from(["q", "q", "s", "p", "M", "M", "P", "trap", "q_accept"]))
        start = draw(st.sampled_from([0, 0, 1, 5, 8, 9, 10, 95, 99]))
        order = draw(st.permutations(list(range(n))))
        return ["%s%d" % (prefix, start + i) for i in order]
    if mode == 1:
        # p, pp, ppp, ...: concatenations of names are ambiguous (p + pp == pp + p)
        p = draw(st.sampled_from(["1", "q", "x", "a", "0"]))
        order = draw(st.permutations(list(range(1, n + 1))))
        return [p * i for i in order]
    return draw(st.lists(st.sampled_from(pool), min_size=n, max_size=n, unique=True))


def alphabets(lo=0, hi=3, syms=SYMS):
    return st.lists(st.sampled_from(syms), min_size=lo, max_size=hi, unique=True).map(sorted)


def finals(draw, Q):
    mode = draw(st.integers(0, 11))
    if mode == 0:
        return []
    if mode == 1:
        return list(Q)
    mask = draw(st.integers(1, 2 ** len(Q) - 1))
    return [q for i, q in enumerate(Q) if mask >> i & 1]


@st.composite
def dfa_specs(draw, max_states=6, min_sigma=0, max_sigma=3, sigma=None, pool=POOL, min_states=1):
    n = draw(st.integers(min_states, max_states))
    Q = draw(names(n, pool))
    S = list(sigma) if sigma is not None else draw(alphabets(min_sigma, max_sigma))
    d = [[Q[i], a, Q[draw(st.integers(0, n - 1))]] for i in range(n) for a in S]
    if draw(st.integers(0, 2)) == 0:
        # insertion order of the transition map (symbol-major, or arbitrary): printers and converters iterate over it
        d = sorted(d, key=lambda t: (t[1], t[0])) if draw(st.booleans()) else list(draw(st.permutations(d)))
    return {"Q": Q, "S": S, "d": d, "q0": Q[0], "F": finals(draw, Q), "eps": None}


@st.composite
def nfa_specs(draw, max_states=5, min_sigma=0, max_sigma=3, sigma=None, pool=POOL, eps_choices=EPS_NFA, min_states=1, max_trans=None):
    n = draw(st.integers(min_states, max_states))
    Q = draw(names(n, pool))
    S = list(sigma) if sigma is not None else draw(alphabets(min_sigma, max_sigma))
    eps = draw(st.sampled_from([e for e in eps_choices if e not in S]))
    labels = S + [eps] + ([eps] if S else [])      # epsilon moves a bit more likely
    m = draw(st.integers(0, max_trans if max_trans is not None else 3 * n))
    seen = set()
    d = []
    for _ in range(m):
        t = (Q[draw(st.integers(0, n - 1))], draw(st.sampled_from(labels)), Q[draw(st.integers(0, n - 1))])
        if t not in seen:
            seen.add(t)
            d.append(list(t))
    return {"Q": Q, "S": S, "d": d, "q0": Q[0], "F": finals(draw, Q), "eps": eps,
            "rep": draw(st.sampled_from(REPS))}


def words(S, max_len=10):
    if not S:
        return st.just("")
    return st.text(alphabet=S, max_size=max_len)


def all_words(S, n):
    out = [""]
    layer = [""]
    for _ in range(n):
        layer = [w + a for w in layer for a in sorted(S)]
        out.extend(layer)
    return out


def word_bound(S, cap=130):
    """Largest L with |Sigma^<=L| <= cap (at least 3, at most 8)."""
    k = len(S)
    if k == 0:
        return 2
    L, total, layer = 0, 1, 1
    while L < 8:
        layer *= k
        if total + layer > cap:
            break
        total += layer
        L += 1
    return max(L, 3)


# ---------------- exhaustive enumerators ----------------

def all_nfas(nstates, sigma, eps="ε", rep="dd_set"):
    Q = ["q%d" % i for i in range(nstates)]
    labels = list(sigma) + [eps]
    keys = [(q, a) for q in Q for a in labels]
    subsets = [list(c) for r in range(nstates + 1) for c in itertools.combinations(Q, r)]
    for choice in itertools.product(subsets, repeat=len(keys)):
        d = [[q, a, t] for (q, a), tgt in zip(keys, choice) for t in tgt]
        for F in subsets:
            yield {"Q": Q, "S": list(sigma), "d": d, "q0": Q[0], "F": F, "eps": eps, "rep": rep}


def all_dfas(max_states, sigma):
    for n in range(1, max_states + 1):
        Q = ["q%d" % i for i in range(n)]
        keys = [(q, a) for q in Q for a in sigma]
        subsets = [list(c) for r in range(n + 1) for c in itertools.combinations(Q, r)]
        for choice in itertools.product(Q, repeat=len(keys)):
            d = [[q, a, t] for (q, a), t in zip(keys, choice)]
            for F in subsets:
                yield {"Q": Q, "S": list(sigma), "d": d, "q0": Q[0], "F": F, "eps": None}


# ---------------- derived instances ----------------

@st.composite
def inflated_dfa_specs(draw, max_states=5, max_sigma=2, pool=POOL):
    """A DFA in which some states are split into equivalent copies and unreachable states are added,
    so that minimisation really has to merge."""
    base = draw(dfa_specs(max_states=max_states, max_sigma=max_sigma, min_sigma=0, pool=pool[:12]))
    Q = list(base["Q"])
    d = {(p, a): q for p, a, q in base["d"]}
    F = set(base["F"])
    extra = [x for x in pool if x not in Q]
    k = draw(st.integers(0, 3))
    for _ in range(k):
        if not extra:
            break
        src = Q[draw(st.integers(0, len(Q) - 1))]
        new = extra.pop(0)
        kind = draw(st.sampled_from(["copy", "copy", "unreach"]))
        Q.append(new)
        if kind == "copy":
            for a in base["S"]:
                d[new, a] = d[src, a]
            if src in F:
                F.add(new)
            # redirect some incoming edges to the copy
            for key in sorted(d):
                if d[key] == src and draw(st.booleans()):
                    d[key] = new
        else:
            for a in base["S"]:
                d[new, a] = Q[draw(st.integers(0, len(Q) - 1))]
            if draw(st.booleans()):
                F.add(new)
    perm = draw(st.permutations(Q))
    return {"Q": list(perm), "S": base["S"], "d": [[p, a, q] for (p, a), q in sorted(d.items())],
            "q0": base["q0"], "F": sorted(F), "eps": None}


@st.composite
def chain_nfa_specs(draw, min_states=5, max_states=12, eps_choices=EPS):
    """NFAs with long epsilon chains / cycles (6-12 states), the shape random sparse NFAs rarely contain."""
    n = draw(st.integers(min_states, max_states))
    Q = draw(st.permutations(POOL[:max(n, 12)] if n <= 12 else POOL))[:n]
    S = draw(alphabets(0, 2))
    eps = draw(st.sampled_from([e for e in eps_choices if e not in S]))
    d = []
    seen = set()

    def add(p, a, q):
        if (p, a, q) not in seen:
            seen.add((p, a, q))
            d.append([p, a, q])
    k = draw(st.integers(max(2, n - 3), n - 1))          # length of the epsilon chain
    for i in range(k):
        add(Q[i], eps, Q[i + 1])
    if draw(st.booleans()):
        add(Q[k], eps, Q[draw(st.integers(0, k))])        # close a cycle
    for _ in range(draw(st.integers(0, 4))):
        a = eps if not S or draw(st.integers(0, 3)) == 0 else S[draw(st.integers(0, len(S) - 1))]
        add(Q[draw(st.integers(0, n - 1))], a, Q[draw(st.integers(0, n - 1))])
    fmode = draw(st.integers(0, 3))
    F = [Q[k]] if fmode == 0 else ([Q[n - 1]] if fmode == 1 else finals(draw, Q))
    return {"Q": list(Q), "S": S, "d": d, "q0": Q[0] if draw(st.integers(0, 4)) else Q[draw(st.integers(0, n - 1))], "F": F, "eps": eps,
            "rep": draw(st.sampled_from(REPS))}


def mixed_nfa_specs(**kw):
    return st.one_of(nfa_specs(**kw), nfa_specs(**kw), nfa_specs(**kw), chain_nfa_specs())
