"""Hypothesis strategies and exhaustive enumerators for DFA / NFA specs (plain data)."""
import itertools

from hypothesis import strategies as st

# state-name pool: \w+ names; deliberately contains the names the library's fresh-name helpers produce
POOL = ["q0", "q1", "q2", "q3", "q4", "q5", "q6", "q7", "p0", "p1", "s", "t", "u", "A", "b1", "z9", "start0",
        "P1", "M1", "trap1", "q_accept", "q_initial", "q8", "q9", "0", "1", "x", "q10", "P2", "trap2",
        # names that are another name followed by an alphabet symbol / by themselves (string-keyed caches, concatenated names)
        "q", "qa", "qb", "q00", "q01", "11", "qq",
        # names that are input symbols, and names that differ from another name only in case
        "a", "b", "Q0", "S"]
SYMS = ["a", "b", "0", "1", "c"]
ODD_SYMS = ["_", "ε", " ", "A", "^", "]", "-", "\\"]      # also characters that are special in regular-expression character classes                  # ordinary input symbols (\w) that other parts of the library write for the empty word
UNDERSCORE_NAMES = ["s", "t", "u", "v", "s_t", "t_u", "u_v", "s_t_u", "t_u_v", "s_t_u_v"]
EPS = ["", "ε", "_", "e"]
EPS_NFA = EPS + ["eps", "lambda", "ea"]      # "any epsilon symbol": also multi-character ones that contain alphabet symbols
REPS = ["dd_set", "total_dict", "dd_lambda"]


@st.composite
def names(draw, n, pool=POOL):
    """n distinct state names.  Mostly from the pool; one time in six consecutive numbered names that cross a digit boundary
    (q8 q9 q10 q11, s99 s100, ...): lexicographic and numeric order differ there, and fresh-name helpers count upwards."""
    mode = draw(st.integers(0, 8)) if pool is POOL else 9
    if mode == 2 and n <= len(UNDERSCORE_NAMES):
        # names made of other names joined by '_': joined names of pairs are ambiguous (s + t_u == s_t + u)
        return draw(st.lists(st.sampled_from(UNDERSCORE_NAMES), min_size=n, max_size=n, unique=True))
    if mode == 0:
        prefix = draw(st.sampled_from(["q", "q", "s", "p", "M", "M", "P", "trap", "q_accept"]))
        start = draw(st.sampled_from([0, 0, 1, 5, 8, 9, 10, 95, 99]))
        order = draw(st.permutations(list(range(n))))
        return ["%s%d" % (prefix, start + i) for i in order]
    if mode == 1:
        # p, pp, ppp, ...: concatenations of names are ambiguous (p + pp == pp + p)
        p = draw(st.sampled_from(["1", "q", "x", "a", "0"]))
        order = draw(st.permutations(list(range(1, n + 1))))
        return [p * i for i in order]
    return draw(st.lists(st.sampled_from(pool), min_size=n, max_size=n, unique=True))


def alphabets(lo=0, hi=3, syms=SYMS, odd=False):
    base = st.lists(st.sampled_from(syms), min_size=lo, max_size=hi, unique=True).map(sorted)
    if not odd or hi < 1:
        return base
    with_odd = st.tuples(st.sampled_from(ODD_SYMS if odd is True else list(odd)), st.lists(st.sampled_from(syms), min_size=max(lo - 1, 0), max_size=hi - 1, unique=True)).map(lambda t: sorted([t[0]] + t[1]))
    return st.one_of(base, base, base, base, with_odd)


def finals(draw, Q):
    mode = draw(st.integers(0, 11))
    if mode == 0:
        return []
    if mode == 1:
        return list(Q)
    mask = draw(st.integers(1, 2 ** len(Q) - 1))
    return [q for i, q in enumerate(Q) if mask >> i & 1]


@st.composite
def dfa_specs(draw, max_states=6, min_sigma=0, max_sigma=3, sigma=None, pool=POOL, min_states=1, odd=False):
    n = draw(st.integers(min_states, max_states))
    Q = draw(names(n, pool))
    S = list(sigma) if sigma is not None else draw(alphabets(min_sigma, max_sigma, odd=odd))
    d = [[Q[i], a, Q[draw(st.integers(0, n - 1))]] for i in range(n) for a in S]
    if draw(st.integers(0, 2)) == 0:
        # insertion order of the transition map (symbol-major, or arbitrary): printers and converters iterate over it
        d = sorted(d, key=lambda t: (t[1], t[0])) if draw(st.booleans()) else list(draw(st.permutations(d)))
    return {"Q": Q, "S": S, "d": d, "q0": Q[0], "F": finals(draw, Q), "eps": None}


@st.composite
def nfa_specs(draw, max_states=5, min_sigma=0, max_sigma=3, sigma=None, pool=POOL, eps_choices=EPS_NFA, min_states=1, max_trans=None, odd=False):
    n = draw(st.integers(min_states, max_states))
    Q = draw(names(n, pool))
    S = list(sigma) if sigma is not None else draw(alphabets(min_sigma, max_sigma, odd=odd))
    eps = draw(st.sampled_from([e for e in eps_choices if e not in S]))
    labels = S + [eps] + ([eps] if S else [])      # epsilon moves a bit more likely
    m = draw(st.integers(0, max_trans if max_trans is not None else 3 * n))
    seen = set()
    d = []
    for _ in range(m):
        t = (Q[draw(st.integers(0, n - 1))], draw(st.sampled_from(labels)), Q[draw(st.integers(0, n - 1))])
        if t not in seen:
            seen.add(t)
            d.append(list(t))
    return {"Q": Q, "S": S, "d": d, "q0": Q[0], "F": finals(draw, Q), "eps": eps,
            "rep": draw(st.sampled_from(REPS))}


def words(S, max_len=10):
    if not S:
        return st.just("")
    return st.text(alphabet=S, max_size=max_len)


def all_words(S, n):
    out = [""]
    layer = [""]
    for _ in range(n):
        layer = [w + a for w in layer for a in sorted(S)]
        out.extend(layer)
    return out


def word_bound(S, cap=130):
    """Largest L with |Sigma^<=L| <= cap (at least 3, at most 8)."""
    k = len(S)
    if k == 0:
        return 2
    L, total, layer = 0, 1, 1
    while L < 8:
        layer *= k
        if total + layer > cap:
            break
        total += layer
        L += 1
    return max(L, 3)


# ---------------- exhaustive enumerators ----------------

def all_nfas(nstates, sigma, eps="ε", rep="dd_set"):
    Q = ["q%d" % i for i in range(nstates)]
    labels = list(sigma) + [eps]
    keys = [(q, a) for q in Q for a in labels]
    subsets = [list(c) for r in range(nstates + 1) for c in itertools.combinations(Q, r)]
    for choice in itertools.product(subsets, repeat=len(keys)):
        d = [[q, a, t] for (q, a), tgt in zip(keys, choice) for t in tgt]
        for F in subsets:
            yield {"Q": Q, "S": list(sigma), "d": d, "q0": Q[0], "F": F, "eps": eps, "rep": rep}


def all_dfas(max_states, sigma):
    for n in range(1, max_states + 1):
        Q = ["q%d" % i for i in range(n)]
        keys = [(q, a) for q in Q for a in sigma]
        subsets = [list(c) for r in range(n + 1) for c in itertools.combinations(Q, r)]
        for choice in itertools.product(Q, repeat=len(keys)):
            d = [[q, a, t] for (q, a), t in zip(keys, choice)]
            for F in subsets:
                yield {"Q": Q, "S": list(sigma), "d": d, "q0": Q[0], "F": F, "eps": None}


# ---------------- derived instances ----------------

@st.composite
def inflated_dfa_specs(draw, max_states=5, max_sigma=2, pool=POOL):
    """A DFA in which some states are split into equivalent copies and unreachable states are added,
    so that minimisation really has to merge."""
    base = draw(dfa_specs(max_states=max_states, max_sigma=max_sigma, min_sigma=0, pool=pool[:12]))
    Q = list(base["Q"])
    d = {(p, a): q for p, a, q in base["d"]}
    F = set(base["F"])
    extra = [x for x in pool if x not in Q]
    k = draw(st.integers(0, 3))
    for _ in range(k):
        if not extra:
            break
        src = Q[draw(st.integers(0, len(Q) - 1))]
        new = extra.pop(0)
        kind = draw(st.sampled_from(["copy", "copy", "unreach"]))
        Q.append(new)
        if kind == "copy":
            for a in base["S"]:
                d[new, a] = d[src, a]
            if src in F:
                F.add(new)
            # redirect some incoming edges to the copy
            for key in sorted(d):
                if d[key] == src and draw(st.booleans()):
                    d[key] = new
        else:
            for a in base["S"]:
                d[new, a] = Q[draw(st.integers(0, len(Q) - 1))]
            if draw(st.booleans()):
                F.add(new)
    perm = draw(st.permutations(Q))
    return {"Q": list(perm), "S": base["S"], "d": [[p, a, q] for (p, a), q in sorted(d.items())],
            "q0": base["q0"], "F": sorted(F), "eps": None}


@st.composite
def chain_nfa_specs(draw, min_states=5, max_states=12, eps_choices=EPS):
    """NFAs with long epsilon chains / cycles (6-12 states), the shape random sparse NFAs rarely contain."""
    n = draw(st.integers(min_states, max_states))
    Q = draw(st.permutations(POOL[:max(n, 12)] if n <= 12 else POOL))[:n]
    S = draw(alphabets(0, 2))
    eps = draw(st.sampled_from([e for e in eps_choices if e not in S]))
    d = []
    seen = set()

    def add(p, a, q):
        if (p, a, q) not in seen:
            seen.add((p, a, q))
            d.append([p, a, q])
    k = draw(st.integers(max(2, n - 3), n - 1))          # length of the epsilon chain
    for i in range(k):
        add(Q[i], eps, Q[i + 1])
    if draw(st.booleans()):
        add(Q[k], eps, Q[draw(st.integers(0, k))])        # close a cycle
    for _ in range(draw(st.integers(0, 4))):
        a = eps if not S or draw(st.integers(0, 3)) == 0 else S[draw(st.integers(0, len(S) - 1))]
        add(Q[draw(st.integers(0, n - 1))], a, Q[draw(st.integers(0, n - 1))])
    fmode = draw(st.integers(0, 3))
    F = [Q[k]] if fmode == 0 else ([Q[n - 1]] if fmode == 1 else finals(draw, Q))
    return {"Q": list(Q), "S": S, "d": d, "q0": Q[0] if draw(st.integers(0, 4)) else Q[draw(st.integers(0, n - 1))], "F": F, "eps": eps,
            "rep": draw(st.sampled_from(REPS))}


@st.composite
def ring_nfa_specs(draw, sigma=None, eps_choices=EPS):
    """An epsilon cycle through 3-5 states with chords, entered from outside at several of its states by the same symbol, and left by symbols that
    only some of its states can read: closures that are computed depth-first, cached or shared are exercised from every entry point."""
    k = draw(st.integers(3, 5))
    m = draw(st.integers(1, 3))
    Q = draw(names(k + m))
    ring, out = Q[:k], Q[k:]
    S = list(sigma) if sigma else draw(st.sampled_from([["a", "b"], ["a", "b", "c"], ["a"]]))
    eps = draw(st.sampled_from([e for e in eps_choices if e not in S]))
    d, seen = [], set()

    def add(p, a, q):
        if (p, a, q) not in seen:
            seen.add((p, a, q))
            d.append([p, a, q])
    for i in range(k):
        add(ring[i], eps, ring[(i + 1) % k])
    for _ in range(draw(st.integers(0, 2))):
        add(ring[draw(st.integers(0, k - 1))], eps, ring[draw(st.integers(0, k - 1))])
    for o in out:
        a = S[draw(st.integers(0, len(S) - 1))]
        for i in draw(st.lists(st.integers(0, k - 1), min_size=1, max_size=3, unique=True)):
            add(o, a, ring[i])
    for _ in range(draw(st.integers(1, 4))):
        add(ring[draw(st.integers(0, k - 1))], S[draw(st.integers(0, len(S) - 1))], Q[draw(st.integers(0, k + m - 1))])
    for _ in range(draw(st.integers(0, 2))):
        add(out[draw(st.integers(0, m - 1))], S[draw(st.integers(0, len(S) - 1))], out[draw(st.integers(0, m - 1))])
    order = draw(st.permutations(d))
    return {"Q": list(draw(st.permutations(Q))), "S": S, "d": [list(t) for t in order], "q0": out[0] if draw(st.booleans()) else ring[draw(st.integers(0, k - 1))],
            "F": finals(draw, Q), "eps": eps, "rep": draw(st.sampled_from(REPS))}


def mixed_nfa_specs(**kw):
    ring = ring_nfa_specs(sigma=kw.get("sigma"), eps_choices=kw.get("eps_choices", EPS))
    return st.one_of(nfa_specs(**kw), nfa_specs(**kw), nfa_specs(**kw), chain_nfa_specs(), ring)


@st.composite
def distance_dfa_specs(draw, min_states=6, max_states=10):
    """DFAs with one (rarely two) accepting state(s) in which the distance to acceptance differs a lot between states and between routes:
    a long chain on one symbol, shortcuts and back edges on the other, transition map in arbitrary insertion order.
    Returns the spec; searches that prune by 'distance to a final state' have something to get wrong here."""
    n = draw(st.integers(min_states, max_states))
    Q = ["q%d" % i for i in range(n)]
    S = draw(st.sampled_from([["a", "b"], ["a", "b"], ["a", "b", "c"]]))
    chain = list(draw(st.permutations(list(range(n)))))
    d = {}
    for i, x in enumerate(chain):
        d[Q[x], S[0]] = Q[chain[(i + 1) % n]] if draw(st.integers(0, 7)) else Q[draw(st.integers(0, n - 1))]
        for a in S[1:]:
            d[Q[x], a] = Q[draw(st.integers(0, n - 1))] if draw(st.integers(0, 2)) else Q[x]
    F = [Q[chain[-1]]] + ([Q[draw(st.integers(0, n - 1))]] if draw(st.integers(0, 3)) == 0 else [])
    items = [[p, a, q] for (p, a), q in d.items()]
    items = list(draw(st.permutations(items)))
    return {"Q": Q, "S": S, "d": items, "q0": Q[chain[draw(st.integers(0, 2))]], "F": sorted(set(F)), "eps": None}


@st.composite
def routes_dfa_specs(draw):
    """A start state p -> q -> z, a junction z with two or three routes of different lengths to the single accepting state, a sink for everything else.
    The transition map is inserted route by route, each route front-to-back or back-to-front, the blocks in arbitrary order: algorithms that
    propagate information along the transitions in map order (distances, reachability, marking) need a different number of sweeps per route."""
    S = ["a", "b", "c"] if draw(st.integers(0, 2)) == 0 else ["a", "b"]
    k = len(S)
    lens = [draw(st.integers(1, 4)) for _ in range(k)]
    f, sink = "f", "x"
    routes = [["r%d_%d" % (j, i) for i in range(lens[j])] for j in range(k)]
    blocks = []
    pre = ["p", "q", "z"][draw(st.integers(0, 2)):]          # 1-3 states in front of (and including) the junction
    d = {}
    head = []
    for i in range(len(pre) - 1):
        head.append((pre[i], S[0], pre[i + 1]))
    blocks.append(head)
    junction = [("z", S[j], routes[j][0]) for j in range(k)]
    blocks.append(junction)
    for j in range(k):
        r = routes[j] + [f]
        sym = S[draw(st.integers(0, k - 1))]
        edges = [(r[i], sym, r[i + 1]) for i in range(len(r) - 1)]
        if draw(st.booleans()):
            edges.reverse()
        blocks.append(edges)
    order = list(draw(st.permutations(list(range(len(blocks))))))
    items = [e for b in order for e in blocks[b]]
    Q = pre + [x for r in routes for x in r] + [f, sink]
    have = {(p, a) for p, a, _ in items}
    rest = []
    for p in Q:
        for a in S:
            if (p, a) not in have:
                tgt = sink if draw(st.integers(0, 5)) else Q[draw(st.integers(0, len(Q) - 1))]
                rest.append((p, a, tgt))
    if draw(st.booleans()):
        items = items + rest
    else:
        items = rest + items
    return {"Q": Q, "S": S, "d": [list(t) for t in items], "q0": pre[0], "F": [f], "eps": None}


def pair_universal_dfa(k, keep=None, names="plain"):
    """k pairwise distinguishable base states B_0..B_{k-1} (B_i accepts exactly the words with at least i a's ... B_0 accepting),
    a state P(i,j) with a -> B_i, b -> B_j for every ordered pair (or the pairs in `keep`), and a spine S_m (a -> m-th pair state, b -> S_{m+1})
    that makes everything reachable.  The DFA is minimal: the pair states differ only in the classes of their successors, so a refinement
    that identifies classes by an ambiguous key merges some of them.  Deterministic (no random choice)."""
    B = ["B%d" % i for i in range(k)]
    pairs = [(i, j) for i in range(k) for j in range(k) if keep is None or (i, j) in keep]
    P = {(i, j): "P%d_%d" % (i, j) for i, j in pairs}
    Sp = ["S%d" % m for m in range(len(pairs) + 1)]
    d = []
    for i in range(k):
        d.append([B[i], "a", B[max(i - 1, 0)]])
        d.append([B[i], "b", B[i]])
    for (i, j), p in P.items():
        d.append([p, "a", B[i]])
        d.append([p, "b", B[j]])
    for m, pr in enumerate(pairs):
        d.append([Sp[m], "a", P[pr]])
        d.append([Sp[m], "b", Sp[m + 1]])
    d.append([Sp[-1], "a", Sp[-1]])
    d.append([Sp[-1], "b", Sp[-1]])
    return {"Q": B + list(P.values()) + Sp, "S": ["a", "b"], "d": d, "q0": Sp[0], "F": [B[0]], "eps": None}


def pair_universal_dfa2(k):
    """Variant with k <= 16 *accepting* base states C_i (told apart by which of four kinds of rejecting states their a- and b-successors are),
    a rejecting state P(i,j) with a -> C_i, b -> C_j for every ordered pair, and a spine that makes everything reachable.  Minimal by construction
    (except for the end of the spine); deterministic."""
    assert 1 <= k <= 16
    C = ["C%d" % i for i in range(k)]
    pairs = [(i, j) for i in range(k) for j in range(k)]
    P = {(i, j): "P%d_%d" % (i, j) for i, j in pairs}
    E, Gg, Dd = "E", "G", "D"
    Sp = ["S%d" % m for m in range(len(pairs) + 1)]
    kinds = [(x, y) for x in "pegd" for y in "pegd"][:k]
    d = []
    for i in range(k):
        tgt = {"p": P[i, i], "e": E, "g": Gg, "d": Dd}
        d.append([C[i], "a", tgt[kinds[i][0]]])
        d.append([C[i], "b", tgt[kinds[i][1]]])
    for (i, j), p in P.items():
        d.append([p, "a", C[i]])
        d.append([p, "b", C[j]])
    d += [[E, "a", C[0]], [E, "b", Dd], [Gg, "a", Dd], [Gg, "b", C[0]], [Dd, "a", Dd], [Dd, "b", Dd]]
    for m, pr in enumerate(pairs):
        d.append([Sp[m], "a", P[pr]])
        d.append([Sp[m], "b", Sp[m + 1]])
    d.append([Sp[-1], "a", Dd])
    d.append([Sp[-1], "b", Dd])
    return {"Q": C + list(P.values()) + [E, Gg, Dd] + Sp, "S": ["a", "b"], "d": d, "q0": Sp[0], "F": list(C), "eps": None}


@st.composite
def word_graph_dfa_specs(draw, max_hubs=3):
    """A DFA obtained from a graph of 1-3 hub states whose edges carry words of 1-3 symbols (spelled out through intermediate states; a sink
    catches the rest).  Half of the words are rotations or reversals of a word used before (a.b entering a hub whose loop reads b.a): state
    elimination then meets labels that consist of the same factors in a different order."""
    S = draw(st.sampled_from([["a", "b"], ["a", "b"], ["a", "b", "c"]]))
    m = draw(st.integers(1, max_hubs))
    used = []
    edges = []
    for h in range(m):
        for first in S:
            if draw(st.integers(0, 9)) < 7:
                if used and draw(st.booleans()):
                    w0 = used[draw(st.integers(0, len(used) - 1))]
                    r = draw(st.integers(0, len(w0)))
                    w = w0[r:] + w0[:r] if draw(st.booleans()) else w0[::-1]
                    if w[0] != first:
                        # keep the DFA deterministic: the word has to start with this edge's letter
                        w = first + w[1:] if draw(st.booleans()) else first + w
                    w = w[:3]
                else:
                    w = first + "".join(S[draw(st.integers(0, len(S) - 1))] for _ in range(draw(st.integers(0, 2))))
                # at most 5 intermediate states in all: the expression extracted from a DFA grows exponentially with the number of states
                room = 5 - sum(len(x) - 1 for _, x, _ in edges)
                w = w[:max(1, min(len(w), room + 1))]
                used.append(w)
                edges.append((h, w, draw(st.integers(0, m - 1))))
    n_mid = sum(len(w) - 1 for _, w, _ in edges)
    Q = draw(names(m + n_mid + 1))
    hubs, mids, sink = Q[:m], Q[m:m + n_mid], Q[-1]
    d = {}
    k = 0
    for h, w, t in edges:
        cur = hubs[h]
        for i, ch in enumerate(w):
            if i == len(w) - 1:
                nxt = hubs[t]
            else:
                nxt = mids[k]
                k += 1
            d[cur, ch] = nxt
            cur = nxt
    for q in Q:
        for a in S:
            d.setdefault((q, a), sink)
    F = [hubs[i] for i in range(m) if draw(st.integers(0, 2)) > 0] or [hubs[0]]
    items = [[p, a, q] for (p, a), q in d.items()]
    if draw(st.booleans()):
        items = list(draw(st.permutations(items)))
    return {"Q": list(draw(st.permutations(Q))), "S": S, "d": items, "q0": hubs[0], "F": F, "eps": None}


@st.composite
def late_exit_cycle_dfa_specs(draw):
    """A cycle c0 -> c1 -> ... -> c(k-1) -> c0 of non-accepting states in which only c0 has a way out (to an accepting state g); the other cycle states are
    funnels (all symbols lead to the next cycle state).  Accepting 'probe' states funnel into arbitrary cycle states, so whether they can reach acceptance
    again is only known after going round the cycle.  Entry states, the order in which the transition map is filled and the successors of g are generated.
    A search that cuts cycles (memoised depth-first search) and a fixpoint computation differ exactly on such automata."""
    S = ["a", "b"]
    k = draw(st.integers(2, 4))
    cyc = ["c%d" % i for i in range(k)]
    probes = ["v%d" % i for i in range(draw(st.integers(1, 3)))]
    Q = ["s", "g"] + cyc + probes
    exit_sym = S[draw(st.integers(0, 1))]
    items = []
    for i in range(1, k):
        for a in S:
            items.append([cyc[i], a, cyc[(i + 1) % k]])
    for a in S:
        items.append([cyc[0], a, "g" if a == exit_sym else cyc[1]])
    for v in probes:
        tgt = cyc[draw(st.integers(0, k - 1))]
        for a in S:
            items.append([v, a, tgt])
    pool = Q
    for a in S:
        items.append(["s", a, pool[draw(st.integers(1, len(pool) - 1))]])
        items.append(["g", a, pool[draw(st.integers(0, len(pool) - 1))]])
    items = list(draw(st.permutations(items)))
    F = ["g"] + probes + (["s"] if draw(st.booleans()) else [])
    names_ = draw(names(len(Q)))
    m = dict(zip(Q, names_))
    return {"Q": [m[q] for q in Q], "S": S, "d": [[m[p], a, m[q]] for p, a, q in items], "q0": m["s"], "F": [m[q] for q in F], "eps": None}
