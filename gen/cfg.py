"""Strategies for context-free grammar specs."""
import string

from hypothesis import strategies as st

UPPER = list(string.ascii_uppercase)
MULTI = ["A0", "A1", "S'", "S0", "q1'q2", "X_1", "B'"]


@st.composite
def cfg_specs(draw, max_vars=5, terms=("a", "b"), max_alts=3, max_len=4, simple=True, allow_norule=True, min_vars=1):
    n = draw(st.integers(min_vars, max_vars))
    pool = UPPER if simple else UPPER + MULTI
    V = draw(st.lists(st.sampled_from(pool), min_size=n, max_size=n, unique=True))
    T = list(terms)
    R = []
    for i, A in enumerate(V):
        k = draw(st.integers(0 if (allow_norule and i > 0) else 1, max_alts))
        for _ in range(k):
            ln = draw(st.integers(0, max_len))
            rhs = []
            for _ in range(ln):
                if draw(st.integers(0, 9)) < 5:
                    rhs.append(V[draw(st.integers(0, n - 1))])
                else:
                    rhs.append(T[draw(st.integers(0, len(T) - 1))])
            R.append([A, rhs])
    return {"V": V, "T": T, "R": R, "S": V[0]}


@st.composite
def cnf_specs(draw, max_vars=4, terms=("a", "b"), max_rules=8, start_eps=True):
    """CNF by construction: A->BC with B,C != S, A->a, optionally S->eps."""
    n = draw(st.integers(1, max_vars))
    V = draw(st.lists(st.sampled_from(UPPER), min_size=n, max_size=n, unique=True))
    T = list(terms)
    S = V[0]
    others = V[1:]
    R = []
    m = draw(st.integers(1, max_rules))
    seen = set()
    for _ in range(m):
        A = V[draw(st.integers(0, n - 1))]
        if others and draw(st.integers(0, 9)) < 6:
            rhs = [others[draw(st.integers(0, len(others) - 1))], others[draw(st.integers(0, len(others) - 1))]]
        else:
            rhs = [T[draw(st.integers(0, len(T) - 1))]]
        key = (A, tuple(rhs))
        if key not in seen:
            seen.add(key)
            R.append([A, rhs])
    for A in V:
        # most variables get a terminal rule, so that grammars are usually productive
        if not any(r[0] == A and len(r[1]) == 1 for r in R) and draw(st.integers(0, 3)) > 0:
            R.append([A, [T[draw(st.integers(0, len(T) - 1))]]])
    if start_eps and draw(st.integers(0, 3)) == 0:
        R.append([S, []])
    if draw(st.booleans()):
        # start variable's rules first (as every text format requires); otherwise arbitrary order
        R = [r for r in R if r[0] == S] + [r for r in R if r[0] != S]
    return {"V": V, "T": T, "R": R, "S": S}


def all_words(T, n):
    out = [""]
    layer = [""]
    for _ in range(n):
        layer = [w + a for w in layer for a in sorted(T)]
        out.extend(layer)
    return out


@st.composite
def unit_chain_specs(draw, terms=("a", "b"), max_len=6):
    """Grammars built around a chain / cycle of unit rules V0 -> V1 -> ... -> Vk (k = 3..max_len) with non-unit rules hanging off it;
    the rule list is shuffled, so the closure has to be computed whatever the listing order is."""
    k = draw(st.integers(3, max_len))
    V = draw(st.lists(st.sampled_from(UPPER), min_size=k + 1, max_size=k + 1, unique=True))
    T = list(terms)
    R = [[V[i], [V[i + 1]]] for i in range(k)]
    if draw(st.booleans()):
        R.append([V[k], [V[draw(st.integers(0, k - 1))]]])          # close a unit cycle
    for i in range(k + 1):
        for _ in range(draw(st.integers(0, 2)) if i < k else draw(st.integers(1, 2))):
            ln = draw(st.integers(1, 3))
            rhs = [(V + T + T)[draw(st.integers(0, len(V) + 2 * len(T) - 1))] for _ in range(ln)]
            if len(rhs) == 1 and rhs[0] in V:
                rhs = [T[0]]
            R.append([V[i], rhs])
    if draw(st.integers(0, 3)) == 0:
        R.append([V[draw(st.integers(0, k))], []])
    R = list(draw(st.permutations(R)))
    return {"V": V, "T": T, "R": R, "S": V[0]}


@st.composite
def recursive_cnf_specs(draw, terms=("a", "b"), max_vars=6):
    """CNF grammars with 4-6 variables in which every variable has a binary rule (mutual recursion is likely) and most have a terminal rule."""
    n = draw(st.integers(3, max_vars))
    V = draw(st.lists(st.sampled_from(UPPER), min_size=n, max_size=n, unique=True))
    T = list(terms)
    S, others = V[0], V[1:]
    R = []
    for A in V:
        for _ in range(draw(st.integers(1, 2))):
            R.append([A, [others[draw(st.integers(0, len(others) - 1))], others[draw(st.integers(0, len(others) - 1))]]])
        if draw(st.integers(0, 9)) < 1:
            R.append([A, [T[draw(st.integers(0, len(T) - 1))]]])     # only some variables derive a single letter: shortest words differ per variable
    if not any(len(rhs) == 1 for _, rhs in R):
        R.append([V[-1], [T[0]]])
    seen, out = set(), []
    for A, rhs in R:
        if (A, tuple(rhs)) not in seen:
            seen.add((A, tuple(rhs)))
            out.append([A, rhs])
    return {"V": V, "T": T, "R": out, "S": S}


@st.composite
def mutual_recursion_cnf_specs(draw, terms=("a", "b")):
    """CNF template: two (or three) mutually recursive variables whose base cases have different lengths,
         Y -> X D | <word of length a>,   X -> Y C | <word of length b>   (optionally through a third variable Z),
    the fixed-length base cases being spelled out with helper variables.  Any memoised / guarded recursion over the
    variables (shortest word, productivity, ...) has to get both orders of visiting right."""
    T = list(terms)
    names = draw(st.lists(st.sampled_from(UPPER), min_size=12, max_size=12, unique=True))
    S, Y, X, Z, C, D = names[:6]
    helpers = names[6:]
    R = []
    V = [S, Y, X, Z, C, D]
    R.append([C, [T[draw(st.integers(0, len(T) - 1))]]])
    R.append([D, [T[draw(st.integers(0, len(T) - 1))]]])

    def fixed(k, head):
        """rules so that `head` derives (among others) a word of length k >= 1, as alternatives of head"""
        if k == 1:
            R.append([head, [T[draw(st.integers(0, len(T) - 1))]]])
            return
        h1, h2 = helpers.pop(), helpers.pop()
        V.extend([h1, h2])
        R.append([head, [h1, h2]])
        left = draw(st.integers(1, k - 1))
        for h, ln in ((h1, left), (h2, k - left)):
            if ln == 1:
                R.append([h, [T[draw(st.integers(0, len(T) - 1))]]])
            else:
                R.append([h, [C, D]] if ln == 2 else [h, [C, D]])
                if ln > 2:
                    # longer fillers are not needed exactly; keep helper productive with length 2
                    pass
    a, b = draw(st.integers(1, 3)), draw(st.integers(1, 4))
    three = draw(st.booleans())
    R.append([Y, [X, D]])
    if three:
        R.append([X, [Z, C]])
        R.append([Z, [Y, D]])
        R.append([Z, [C, C]])
    else:
        R.append([X, [Y, C]])
    fixed(a, Y)
    fixed(b, X)
    start_rules = draw(st.sampled_from([[[S, [Y, D]]], [[S, [X, C]]], [[S, [Y, D]], [S, [X, C]]], [[S, [C, X]], [S, [Y, Y]]]]))
    R = start_rules + R
    if draw(st.booleans()):
        R = start_rules + list(draw(st.permutations(R[len(start_rules):])))
    used = {S} | {x for _, rhs in R for x in rhs} | {A for A, _ in R}
    V = [v for v in V if v in used]
    return {"V": V, "T": T, "R": R, "S": S}


@st.composite
def pseudo_cnf_specs(draw, terms=("a", "b"), max_vars=3):
    """Every rule has Chomsky *shape* (A -> BC | a | eps) but the grammar is not in Chomsky normal form:
    eps-rules for non-start variables, or the start variable on a right-hand side / recursive and nullable."""
    n = draw(st.integers(1, max_vars))
    V = draw(st.lists(st.sampled_from(UPPER), min_size=n, max_size=n, unique=True))
    T = list(terms)
    R = []
    for A in V:
        for _ in range(draw(st.integers(1, 2))):
            R.append([A, [V[draw(st.integers(0, n - 1))], V[draw(st.integers(0, n - 1))]]])
        if draw(st.integers(0, 3)) > 0:
            R.append([A, [T[draw(st.integers(0, len(T) - 1))]]])
        if draw(st.integers(0, 2)) == 0:
            R.append([A, []])
    if not any(not rhs for _, rhs in R):
        R.append([V[-1], []])
    seen, out = set(), []
    for A, rhs in R:
        if (A, tuple(rhs)) not in seen:
            seen.add((A, tuple(rhs)))
            out.append([A, rhs])
    out = [r for r in out if r[0] == V[0]] + [r for r in out if r[0] != V[0]]
    return {"V": V, "T": T, "R": out, "S": V[0]}


AMBIG_VARS = ["A", "B", "C", "AB", "BC", "ABC", "S0", "S"]


@st.composite
def multichar_cnf_specs(draw, terms=("a", "b")):
    """CNF grammars whose variable names concatenate ambiguously (A + BC == AB + C)."""
    n = draw(st.integers(3, 6))
    V = draw(st.lists(st.sampled_from(AMBIG_VARS), min_size=n, max_size=n, unique=True))
    T = list(terms)
    S, others = V[0], V[1:]
    R = []
    for A in V:
        for _ in range(draw(st.integers(0, 2))):
            R.append([A, [others[draw(st.integers(0, len(others) - 1))], others[draw(st.integers(0, len(others) - 1))]]])
        if draw(st.integers(0, 3)) > 0:
            R.append([A, [T[draw(st.integers(0, len(T) - 1))]]])
    seen, out = set(), []
    for A, rhs in R:
        if (A, tuple(rhs)) not in seen:
            seen.add((A, tuple(rhs)))
            out.append([A, rhs])
    if not out:
        out = [[S, [T[0]]]]
    return {"V": V, "T": T, "R": out, "S": S}


@st.composite
def numbered_cfg_specs(draw, terms=("a", "b")):
    """26-32 variables named <letter><index> (N0 .. N29): every name 'existing name + digit' is taken as well, so fresh-name schemes that append a
    counter to a hint have to check the result.  A small core (N0, N1, N2 and N10..N13) carries the rules, some of them long; the other variables
    have one terminal rule each."""
    P = draw(st.sampled_from(["N", "A", "S", "X"]))
    n = draw(st.integers(26, 32))
    V = ["%s%d" % (P, i) for i in range(n)]
    T = list(terms)
    core = [V[0], V[1], V[2]] + V[10:14]
    R = []
    for A in core:
        for _ in range(draw(st.integers(1, 2))):
            ln = draw(st.sampled_from([1, 2, 3, 3, 4]))
            rhs = []
            for _ in range(ln):
                if draw(st.booleans()):
                    rhs.append(core[draw(st.integers(0, len(core) - 1))])
                else:
                    rhs.append(T[draw(st.integers(0, len(T) - 1))])
            if rhs == [A]:
                rhs = [T[0]]
            R.append([A, rhs])
    for A in core[1:]:
        if draw(st.booleans()):
            R.append([A, [T[draw(st.integers(0, len(T) - 1))]]])
    R.append([V[0], [core[draw(st.integers(1, len(core) - 1))]]])
    for A in V:
        if A not in core:
            R.append([A, [T[draw(st.integers(0, len(T) - 1))]]])
    seen, out = set(), []
    for A, rhs in R:
        if (A, tuple(rhs)) not in seen:
            seen.add((A, tuple(rhs)))
            out.append([A, rhs])
    return {"V": V, "T": T, "R": out, "S": V[0]}
