"""Strategies for context-free grammar specs."""
import string

from hypothesis import strategies as st

UPPER = list(string.ascii_uppercase)
MULTI = ["A0", "A1", "S'", "S0", "q1'q2", "X_1", "B'"]


@st.composite
def cfg_specs(draw, max_vars=5, terms=("a", "b"), max_alts=3, max_len=4, simple=True, allow_norule=True, min_vars=1):
    n = draw(st.integers(min_vars, max_vars))
    pool = UPPER if simple else UPPER + MULTI
    V = draw(st.lists(st.sampled_from(pool), min_size=n, max_size=n, unique=True))
    T = list(terms)
    R = []
    for i, A in enumerate(V):
        k = draw(st.integers(0 if (allow_norule and i > 0) else 1, max_alts))
        for _ in range(k):
            ln = draw(st.integers(0, max_len))
            rhs = []
            for _ in range(ln):
                if draw(st.integers(0, 9)) < 5:
                    rhs.append(V[draw(st.integers(0, n - 1))])
                else:
                    rhs.append(T[draw(st.integers(0, len(T) - 1))])
            R.append([A, rhs])
    return {"V": V, "T": T, "R": R, "S": V[0]}


@st.composite
def cnf_specs(draw, max_vars=4, terms=("a", "b"), max_rules=8, start_eps=True):
    """CNF by construction: A->BC with B,C != S, A->a, optionally S->eps."""
    n = draw(st.integers(1, max_vars))
    V = draw(st.lists(st.sampled_from(UPPER), min_size=n, max_size=n, unique=True))
    T = list(terms)
    S = V[0]
    others = V[1:]
    R = []
    m = draw(st.integers(1, max_rules))
    seen = set()
    for _ in range(m):
        A = V[draw(st.integers(0, n - 1))]
        if others and draw(st.integers(0, 9)) < 6:
            rhs = [others[draw(st.integers(0, len(others) - 1))], others[draw(st.integers(0, len(others) - 1))]]
        else:
            rhs = [T[draw(st.integers(0, len(T) - 1))]]
        key = (A, tuple(rhs))
        if key not in seen:
            seen.add(key)
            R.append([A, rhs])
    for A in V:
        # most variables get a terminal rule, so that grammars are usually productive
        if not any(r[0] == A and len(r[1]) == 1 for r in R) and draw(st.integers(0, 3)) > 0:
            R.append([A, [T[draw(st.integers(0, len(T) - 1))]]])
    if start_eps and draw(st.integers(0, 3)) == 0:
        R.append([S, []])
    if draw(st.booleans()):
        # start variable's rules first (as every text format requires); otherwise arbitrary order
        R = [r for r in R if r[0] == S] + [r for r in R if r[0] != S]
    return {"V": V, "T": T, "R": R, "S": S}


def all_words(T, n):
    out = [""]
    layer = [""]
    for _ in range(n):
        layer = [w + a for w in layer for a in sorted(T)]
        out.extend(layer)
    return out
