"""Strategies and enumerators for regular-expression trees ["0"],["1"],["s",a],["*",r],["+",r,s],[".",r,s]."""
import functools

from hypothesis import strategies as st


def _tree(draw, syms, budget):
    """Size-budgeted recursive draw (much faster than st.recursive)."""
    if budget <= 1 or draw(st.integers(0, 5)) == 0:
        k = draw(st.integers(0, 5))
        if k == 0:
            return ["0"]
        if k == 1:
            return ["1"]
        return ["s", syms[draw(st.integers(0, len(syms) - 1))]]
    k = draw(st.integers(0, 11))
    if k <= 2:
        return ["*", _tree(draw, syms, budget - 1)]
    if k <= 5:
        left = draw(st.integers(1, budget - 1))
        return ["+", _tree(draw, syms, left), _tree(draw, syms, budget - left)]
    if k <= 8:
        left = draw(st.integers(1, budget - 1))
        return [".", _tree(draw, syms, left), _tree(draw, syms, budget - left)]
    # biased shapes: (r*)*, (1+r)*, r.0 / 0.r, 0*+r
    r = _tree(draw, syms, budget - 2)
    if k == 9:
        return ["*", ["*", r]]
    if k == 10:
        return ["*", ["+", ["1"], r]]
    if draw(st.booleans()):
        # structurally related summands / factors: r+r, r.s + s.r, (r+s)+(s+r), r.s + r.s
        s2 = _tree(draw, syms, max(1, budget // 2))
        return draw(st.sampled_from([["+", r, r], ["+", [".", r, s2], [".", s2, r]], ["+", ["+", r, s2], ["+", s2, r]],
                                     ["+", [".", r, s2], [".", r, s2]], [".", ["+", r, s2], ["+", s2, r]]]))
    return draw(st.sampled_from([[".", r, ["0"]], ["+", ["*", ["0"]], r], [".", ["1"], r], [".", ["0"], r]]))


def _fold(op, xs, left):
    xs = list(xs)
    if left:
        t = xs[0]
        for x in xs[1:]:
            t = [op, t, x]
        return t
    t = xs[-1]
    for x in reversed(xs[:-1]):
        t = [op, x, t]
    return t


def _word(draw, syms, lo=1, hi=2):
    n = draw(st.integers(lo, hi))
    return _fold(".", [["s", syms[draw(st.integers(0, len(syms) - 1))]] for _ in range(n)], draw(st.booleans()))


def _ambiguous_concat(draw, syms):
    """Concatenations of nullable / ambiguous factors ((1+w), (w+1), (w.v+1), w*, (w+v), w): a word splits over the factors in several ways and
    only some of the splits can be completed by the factors that follow.  Nested to the left, to the right or mixed; possibly under a star."""
    def factor():
        k = draw(st.integers(0, 6))
        w = _word(draw, syms)
        if k == 0:
            return ["+", ["1"], w]
        if k == 1:
            return ["+", w, ["1"]]
        if k == 2:
            return ["+", [".", w, _word(draw, syms, 1, 1)], ["1"]]
        if k == 3:
            return ["*", w]
        if k == 4:
            return ["+", w, _word(draw, syms)]
        return w
    n = draw(st.integers(2, 5))
    fs = [factor() for _ in range(n)]
    mode = draw(st.integers(0, 2))
    if mode < 2:
        t = _fold(".", fs, left=(mode == 0))
    else:
        cut = draw(st.integers(1, n - 1))
        t = [".", _fold(".", fs[:cut], True), _fold(".", fs[cut:], False)]
    k = draw(st.integers(0, 4))
    if k == 0:
        t = ["*", t]
    elif k == 1:
        t = ["+", t, _word(draw, syms)]
    return t


def _prefix_related(draw, syms):
    """Two operands one of which is a proper prefix chain of the other (a.b vs a.b.c, a+b vs a+b+c), next to a star:
    rewrite rules that compare operands structurally see them side by side."""
    op = draw(st.sampled_from([".", ".", "+"]))
    n = draw(st.integers(2, 4))
    elems = [["s", syms[draw(st.integers(0, len(syms) - 1))]] if draw(st.integers(0, 3)) else _tree(draw, syms, 2) for _ in range(n)]
    j = draw(st.integers(1, n - 1))
    la, lb = draw(st.booleans()), draw(st.booleans())
    A, B = _fold(op, elems[:j], la), _fold(op, elems, lb)
    if draw(st.booleans()):
        A, B = B, A
    shapes = [[".", ["*", A], ["*", B]], ["+", A, ["*", B]], ["+", ["*", B], A], ["+", ["*", A], ["*", B]], ["+", ["1"], ["*", B]],
              ["+", [".", A, ["*", B]], A], ["+", A, B], [".", ["*", A], B]]
    t = shapes[draw(st.integers(0, len(shapes) - 1))]
    if draw(st.integers(0, 3)) == 0:
        t = draw(st.sampled_from([["*", t], [".", t, _word(draw, syms, 1, 1)], ["+", _word(draw, syms, 1, 1), t]]))
    return t


@st.composite
def trees(draw, symbols, max_leaves=12):
    syms = list(symbols)
    if max_leaves >= 6 and syms:
        k = draw(st.integers(0, 9))
        if k == 0:
            return _ambiguous_concat(draw, syms)
        if k == 1:
            return _prefix_related(draw, syms)
    return _tree(draw, syms, draw(st.integers(1, max_leaves)))


@functools.lru_cache(maxsize=None)
def _all(nodes, atoms):
    if nodes == 1:
        return tuple([["0"], ["1"]] + [["s", a] for a in atoms])
    out = [["*", r] for r in _all(nodes - 1, atoms)]
    for k in range(1, nodes - 1):
        for l in _all(k, atoms):
            for r in _all(nodes - 1 - k, atoms):
                out.append(["+", l, r])
                out.append([".", l, r])
    return tuple(out)


def all_trees(max_nodes, atoms=("a", "b")):
    for n in range(1, max_nodes + 1):
        for t in _all(n, tuple(atoms)):
            yield t
