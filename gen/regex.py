"""Strategies and enumerators for regular-expression trees ["0"],["1"],["s",a],["*",r],["+",r,s],[".",r,s]."""
import functools

from hypothesis import strategies as st


def _tree(draw, syms, budget):
    """Size-budgeted recursive draw (much faster than st.recursive)."""
    if budget <= 1 or draw(st.integers(0, 5)) == 0:
        k = draw(st.integers(0, 5))
        if k == 0:
            return ["0"]
        if k == 1:
            return ["1"]
        return ["s", syms[draw(st.integers(0, len(syms) - 1))]]
    k = draw(st.integers(0, 11))
    if k <= 2:
        return ["*", _tree(draw, syms, budget - 1)]
    if k <= 5:
        left = draw(st.integers(1, budget - 1))
        return ["+", _tree(draw, syms, left), _tree(draw, syms, budget - left)]
    if k <= 8:
        left = draw(st.integers(1, budget - 1))
        return [".", _tree(draw, syms, left), _tree(draw, syms, budget - left)]
    # biased shapes: (r*)*, (1+r)*, r.0 / 0.r, 0*+r
    r = _tree(draw, syms, budget - 2)
    if k == 9:
        return ["*", ["*", r]]
    if k == 10:
        return ["*", ["+", ["1"], r]]
    if draw(st.booleans()):
        # structurally related summands / factors: r+r, r.s + s.r, (r+s)+(s+r), r.s + r.s
        s2 = _tree(draw, syms, max(1, budget // 2))
        return draw(st.sampled_from([["+", r, r], ["+", [".", r, s2], [".", s2, r]], ["+", ["+", r, s2], ["+", s2, r]],
                                     ["+", [".", r, s2], [".", r, s2]], [".", ["+", r, s2], ["+", s2, r]]]))
    return draw(st.sampled_from([[".", r, ["0"]], ["+", ["*", ["0"]], r], [".", ["1"], r], [".", ["0"], r]]))


@st.composite
def trees(draw, symbols, max_leaves=12):
    return _tree(draw, list(symbols), draw(st.integers(1, max_leaves)))


@functools.lru_cache(maxsize=None)
def _all(nodes, atoms):
    if nodes == 1:
        return tuple([["0"], ["1"]] + [["s", a] for a in atoms])
    out = [["*", r] for r in _all(nodes - 1, atoms)]
    for k in range(1, nodes - 1):
        for l in _all(k, atoms):
            for r in _all(nodes - 1 - k, atoms):
                out.append(["+", l, r])
                out.append([".", l, r])
    return tuple(out)


def all_trees(max_nodes, atoms=("a", "b")):
    for n in range(1, max_nodes + 1):
        for t in _all(n, tuple(atoms)):
            yield t
