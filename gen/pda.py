"""Strategies for PDA specs."""
from hypothesis import strategies as st

from gen.fa import POOL, names, finals

STACK = ["$", "X", "a", "@", "0", "#", "Z", "%", "~", "!", "^", "&", "*"]
EPS = ["", "ε", "_", "e"]


@st.composite
def pda_specs(draw, max_states=4, sigma=None, max_gamma=3, max_trans=8, eps_choices=EPS, pool=POOL, min_trans=1, multichar=False, odd=False):
    n = draw(st.integers(1, max_states))
    Q = draw(names(n, pool))
    S = list(sigma) if sigma is not None else draw(st.sampled_from([["a"], ["a", "b"], ["a", "b"], []] + ([["_", "a"], ["a", "ε"]] if odd else [])))
    gchoices = [g for g in STACK]
    if multichar and draw(st.integers(0, 5)) == 0:
        gchoices = ["X", "XX", "XY", "Y"]        # stack symbols of different lengths whose concatenations coincide ([X,X] vs [XX])
    G = draw(st.lists(st.sampled_from(gchoices), min_size=1, max_size=max_gamma, unique=True))
    eps = draw(st.sampled_from([e for e in eps_choices if e not in S and e not in G]))
    m = draw(st.integers(min_trans, max_trans))
    d, seen = [], set()
    for _ in range(m):
        p = Q[draw(st.integers(0, n - 1))]
        q = Q[draw(st.integers(0, n - 1))]
        a = eps if (not S or draw(st.integers(0, 9)) < 4) else S[draw(st.integers(0, len(S) - 1))]
        kind = draw(st.integers(0, 9))   # 0-3 push, 4-6 pop, 7 noop, 8-9 replace
        g1 = G[draw(st.integers(0, len(G) - 1))]
        g2 = G[draw(st.integers(0, len(G) - 1))]
        if kind <= 3:
            u, v = eps, g1
        elif kind <= 6:
            u, v = g1, eps
        elif kind == 7:
            u, v = eps, eps
        else:
            u, v = g1, g2
        t = (p, a, u, q, v)
        if t not in seen:
            seen.add(t)
            d.append(list(t))
    return {"Q": Q, "S": S, "G": G, "d": d, "q0": Q[0], "F": finals(draw, Q), "eps": eps}


def classes(spec):
    eps = spec["eps"]
    cls = set()
    for p, a, u, q, v in spec["d"]:
        if u == eps and v != eps:
            cls.add("push")
        elif u != eps and v == eps:
            cls.add("pop")
        elif u == eps and v == eps:
            cls.add("noop")
        else:
            cls.add("replace")
        if a == eps:
            cls.add("eps_move")
            if p == q and u == eps and v != eps:
                cls.add("growing_eps_loop")
    return cls


def _anbn(eps):
    return {"Q": ["q1", "q2", "q3", "q4"], "S": ["a", "b"], "G": ["$", "X"],
            "d": [["q1", eps, eps, "q2", "$"], ["q2", "a", eps, "q2", "X"], ["q2", "b", "X", "q3", eps], ["q3", "b", "X", "q3", eps], ["q3", eps, "$", "q4", eps]],
            "q0": "q1", "F": ["q1", "q4"], "eps": eps}


def _pal(eps):
    return {"Q": ["p", "q", "r"], "S": ["a", "b"], "G": ["a", "b", "$"],
            "d": [["p", eps, eps, "q", "$"], ["q", "a", eps, "q", "a"], ["q", "b", eps, "q", "b"], ["q", eps, eps, "r", eps], ["q", "a", eps, "r", eps], ["q", "b", eps, "r", eps],
                  ["r", "a", "a", "r", eps], ["r", "b", "b", "r", eps], ["r", eps, "$", "s", eps]],
            "q0": "p", "F": ["s"], "eps": eps, "_extraQ": ["s"]}


def _nonempty_stack(eps):
    # accepts a^n (n>=1) with symbols left on the stack
    return {"Q": ["q0", "q1"], "S": ["a", "b"], "G": ["X"],
            "d": [["q0", "a", eps, "q1", "X"], ["q1", "a", eps, "q1", "X"], ["q1", "b", "X", "q1", eps]],
            "q0": "q0", "F": ["q1"], "eps": eps}


def _replace(eps):
    return {"Q": ["s", "t"], "S": ["a", "b"], "G": ["X", "Z"],
            "d": [["s", eps, eps, "s", "Z"], ["s", "a", "Z", "t", "X"], ["t", "a", "X", "t", "Z"], ["t", "b", "Z", "t", "X"], ["t", "b", "X", "s", eps]],
            "q0": "s", "F": ["t"], "eps": eps}


def _diamond(eps):
    # reconverging eps-branches in front of a push/pop core: the same configuration is reached along several eps-paths and has eps-successors of its own
    return {"Q": ["s", "u1", "u2", "u3", "m", "g", "f"], "S": ["a", "b"], "G": ["X"],
            "d": [["s", eps, eps, "u1", "X"], ["s", eps, eps, "u2", "X"], ["s", eps, eps, "u3", "X"], ["u1", eps, eps, "m", eps], ["u2", eps, eps, "m", eps],
                  ["u3", eps, eps, "m", eps], ["m", eps, "X", "g", eps], ["g", "a", eps, "g", "X"], ["g", "b", "X", "f", eps], ["f", eps, eps, "s", eps]],
            "q0": "s", "F": ["f", "g"], "eps": eps}


def _replace_only(eps):
    # the symbol Y reaches the stack only through a replace move and is popped later: a^n b b (n >= 1)
    return {"Q": ["q0", "q1", "q2"], "S": ["a", "b"], "G": ["X", "Y"],
            "d": [["q0", "a", eps, "q0", "X"], ["q0", "b", "X", "q1", "Y"], ["q1", "b", "Y", "q2", eps]],
            "q0": "q0", "F": ["q2"], "eps": eps}


def _counter_and_sink(eps):
    # one branch counts the a's on the stack, another one keeps the stack empty; acceptance after b through an eps push
    return {"Q": ["s", "p", "k", "g", "f"], "S": ["a", "b"], "G": ["A", "B"],
            "d": [["s", eps, eps, "p", eps], ["s", eps, eps, "k", eps], ["p", "a", eps, "p", "A"], ["k", "a", eps, "k", eps], ["k", "b", eps, "k", eps], ["p", "b", eps, "g", eps],
                  ["g", eps, eps, "f", "B"]],
            "q0": "s", "F": ["f"], "eps": eps}


def _ambiguous_stacks(eps):
    # stack symbols X and XX: the stacks [X, X] and [XX] spell the same text but are different; only the first one leads to acceptance (a b b)
    return {"Q": ["q0", "q1", "q2", "q3", "q4"], "S": ["a", "b"], "G": ["X", "XX"],
            "d": [["q0", "a", eps, "q1", "X"], ["q1", eps, eps, "q2", "X"], ["q0", "a", eps, "q2", "XX"], ["q2", "b", "X", "q3", eps], ["q3", "b", "X", "q4", eps]],
            "q0": "q0", "F": ["q4"], "eps": eps}


def _drain_dead_ends(eps):
    # a^n (n >= 1): every a is pushed, or (non-deterministically) leads to one of two dead ends; at the end the whole stack is drained by eps-pops.
    # One eps-closure starts from several configurations, and all the work is behind one of them.
    return {"Q": ["i", "s", "d1", "d2", "t", "f"], "S": ["a"], "G": ["$", "A"],
            "d": [["i", eps, eps, "s", "$"], ["s", "a", eps, "s", "A"], ["s", "a", eps, "d1", eps], ["s", "a", eps, "d2", eps],
                  ["s", eps, "A", "t", eps], ["t", eps, "A", "t", eps], ["t", eps, "$", "f", eps]],
            "q0": "i", "F": ["f"], "eps": eps}


def _guarded_lap(eps):
    # a^n b (n >= 1): an eps-cycle s -> t -> s with a net push ($) that can be taken only once, because its first move peeks at a B on top of the stack
    # and the cycle itself buries that B; acceptance needs exactly one lap.  The configuration after the lap has the same state and a longer stack.
    return {"Q": ["s", "t", "f"], "S": ["a", "b"], "G": ["B", "$"],
            "d": [["s", "a", eps, "s", "B"], ["s", eps, "B", "t", "B"], ["t", eps, eps, "s", "$"], ["s", "b", "$", "f", eps]],
            "q0": "s", "F": ["f"], "eps": eps}


def _multi_push(k):
    # a^i b^j with i >= 1 and 1 <= j <= k*i: every a pushes k symbols (k-1 of them by eps-moves), every b pops one, acceptance by final state with
    # symbols left on the stack: the stack is much higher than the word is long
    def build(eps):
        Q = ["q0"] + ["p%d" % i for i in range(1, k)] + ["q2"]
        d = [["q0", "a", eps, Q[1] if k > 1 else "q0", "x"]]
        for i in range(1, k):
            d.append([Q[i], eps, eps, Q[i + 1] if i + 1 < k else "q0", "x"])
        d += [["q0", "b", "x", "q2", eps], ["q2", "b", "x", "q2", eps]]
        return {"Q": Q, "S": ["a", "b"], "G": ["x"], "d": d, "q0": "q0", "F": ["q2"], "eps": eps}
    return build


TEMPLATES = [_multi_push(2), _multi_push(3), _multi_push(4), _guarded_lap, _anbn, _pal, _nonempty_stack, _replace, _diamond, _replace_only, _counter_and_sink, _drain_dead_ends]
def _ambiguous_stacks2(eps):
    # the stacks [XY] (after a) and [X, Y] (after b) in the same state spell the same text; a continues only from the first, b only from the second: {aa, bb}
    return {"Q": ["q0", "p", "q1", "g", "f"], "S": ["a", "b"], "G": ["X", "Y", "XY"],
            "d": [["q0", "a", eps, "q1", "XY"], ["q0", "b", eps, "p", "X"], ["p", eps, eps, "q1", "Y"], ["q1", "a", "XY", "f", eps], ["q1", "b", "Y", "g", eps], ["g", eps, "X", "f", eps]],
            "q0": "q0", "F": ["f"], "eps": eps}


TEMPLATES_MULTICHAR = TEMPLATES + [_ambiguous_stacks, _ambiguous_stacks2]


@st.composite
def structured_pda_specs(draw, eps_choices=("", "ε", "_"), max_noise=2, multichar=False):
    eps = draw(st.sampled_from(list(eps_choices)))
    spec = draw(st.sampled_from(TEMPLATES_MULTICHAR if multichar else TEMPLATES))(eps)
    spec["Q"] = spec["Q"] + spec.pop("_extraQ", [])
    Q, S, Gm = spec["Q"], spec["S"], spec["G"]
    for _ in range(draw(st.integers(0, max_noise))):
        kind = draw(st.integers(0, 3))
        g1, g2 = Gm[draw(st.integers(0, len(Gm) - 1))], Gm[draw(st.integers(0, len(Gm) - 1))]
        u, v = [(eps, g1), (g1, eps), (eps, eps), (g1, g2)][kind]
        a = eps if draw(st.booleans()) else S[draw(st.integers(0, len(S) - 1))]
        t = [Q[draw(st.integers(0, len(Q) - 1))], a, u, Q[draw(st.integers(0, len(Q) - 1))], v]
        if t not in spec["d"]:
            spec["d"].append(t)
    if draw(st.integers(0, 4)) == 0:
        spec["F"] = finals(draw, Q)
    # rename states through a generated injective map
    new = draw(names(len(Q)))
    m = dict(zip(Q, new))
    return {"Q": new, "S": S, "G": Gm, "d": [[m[p], a, u, m[q], v] for p, a, u, q, v in spec["d"]], "q0": m[spec["q0"]],
            "F": [m[q] for q in spec["F"]], "eps": eps}


def mixed_pda_specs(**kw):
    return st.one_of(pda_specs(multichar=True, **kw), pda_specs(**kw), structured_pda_specs(multichar=True))
