"""Submitted answers for the exercise checkers: correct keys, single mutations, independent objects, ill-formed text.
All answers are rendered by ref/text.py or by the renderers below, so the intended object is known without the library's parsers."""
import copy

from hypothesis import strategies as st

from gen import fa as G, pda as GP, tm as GT, cfg as GC, regex as GR


def render_cfg(spec, eps="ε"):
    """Simple grammar format: 'A -> aB | ε', start variable first."""
    order = []
    for A, _ in spec["R"]:
        if A not in order:
            order.append(A)
    if spec["S"] in order:
        order.remove(spec["S"])
    order.insert(0, spec["S"])
    lines = []
    for A in order:
        alts = ["".join(rhs) if rhs else eps for B, rhs in spec["R"] if B == A]
        if alts:
            lines.append("%s -> %s" % (A, " | ".join(alts)))
    return "\n".join(lines)


def cfg_text_expressible(spec):
    """Start variable has a rule, all symbols single letters, every variable that occurs has a rule (otherwise it would be read as ... a variable
    without rules is simply absent from V after parsing, which changes V but not the language)."""
    heads = {A for A, _ in spec["R"]}
    return spec["S"] in heads and all(len(v) == 1 and v.isupper() for v in spec["V"]) and all(len(t) == 1 and t.islower() for t in spec["T"])


def render_regexp_simple(t):
    k = t[0]
    if k in "01":
        return k
    if k == "s":
        return t[1]
    if k == "*":
        return "(%s)*" % render_regexp_simple(t[1])
    if k == "+":
        return "(%s+%s)" % (render_regexp_simple(t[1]), render_regexp_simple(t[2]))
    return "(%s%s)" % (render_regexp_simple(t[1]), render_regexp_simple(t[2]))


@st.composite
def mutate_fa(draw, spec, nfa=False):
    s = copy.deepcopy(spec)
    Q = s["Q"]
    ops = ["flip_final", "redirect", "flip_final", "redirect", "initial"]
    if nfa:
        ops += ["add_eps", "drop", "add_trans"]
    op = draw(st.sampled_from(ops))
    if op == "redirect" and not s["d"]:
        op = "flip_final"
    if op == "initial":
        if len(Q) >= 2:
            s["q0"] = [q for q in Q if q != s["q0"]][draw(st.integers(0, len(Q) - 2))]
        else:
            op = "flip_final"
    if op == "flip_final":
        q = Q[draw(st.integers(0, len(Q) - 1))]
        s["F"] = [x for x in s["F"] if x != q] if q in s["F"] else s["F"] + [q]
    elif op == "redirect":
        t = s["d"][draw(st.integers(0, len(s["d"]) - 1))]
        t[2] = Q[draw(st.integers(0, len(Q) - 1))]
    elif op == "add_eps":
        t = [Q[draw(st.integers(0, len(Q) - 1))], s["eps"], Q[draw(st.integers(0, len(Q) - 1))]]
        if t not in s["d"]:
            s["d"].append(t)
    elif op == "drop" and s["d"]:
        del s["d"][draw(st.integers(0, len(s["d"]) - 1))]
    elif op == "add_trans" and s["S"]:
        t = [Q[draw(st.integers(0, len(Q) - 1))], s["S"][draw(st.integers(0, len(s["S"]) - 1))], Q[draw(st.integers(0, len(Q) - 1))]]
        if t not in s["d"]:
            s["d"].append(t)
    # de-duplicate
    seen, d = set(), []
    for t in s["d"]:
        if tuple(t) not in seen:
            seen.add(tuple(t))
            d.append(t)
    s["d"] = d
    return s


@st.composite
def mutate_cfg(draw, spec):
    s = copy.deepcopy(spec)
    op = draw(st.sampled_from(["drop_rule", "add_rule", "change_symbol", "add_eps", "add_unit"]))
    V, T = s["V"], s["T"]
    if op == "drop_rule" and len(s["R"]) > 1:
        i = draw(st.integers(0, len(s["R"]) - 1))
        if sum(1 for A, _ in s["R"] if A == s["S"]) > 1 or s["R"][i][0] != s["S"]:
            del s["R"][i]
    elif op == "add_rule":
        A = V[draw(st.integers(0, len(V) - 1))]
        rhs = [(V + T)[draw(st.integers(0, len(V) + len(T) - 1))] for _ in range(draw(st.integers(1, 3)))]
        s["R"].append([A, rhs])
    elif op == "change_symbol":
        cand = [r for r in s["R"] if r[1]]
        if cand:
            r = cand[draw(st.integers(0, len(cand) - 1))]
            r[1][draw(st.integers(0, len(r[1]) - 1))] = (V + T)[draw(st.integers(0, len(V) + len(T) - 1))]
    elif op == "add_eps":
        s["R"].append([V[draw(st.integers(0, len(V) - 1))], []])
    else:
        s["R"].append([V[draw(st.integers(0, len(V) - 1))], [V[draw(st.integers(0, len(V) - 1))]]])
    return s


@st.composite
def mutate_regex(draw, t):
    """Replace one subtree by a small random tree / wrap in star / swap operator."""
    import json
    paths = []

    def walk(x, p):
        paths.append(p)
        for i, c in enumerate(x[1:], 1):
            if isinstance(c, list):
                walk(c, p + [i])
    walk(t, [])
    p = paths[draw(st.integers(0, len(paths) - 1))]
    s = json.loads(json.dumps(t))
    node = s
    for i in p[:-1]:
        node = node[i]
    syms = sorted({x for x in json.dumps(t) if x.isalpha() and x != "s"}) or ["a"]
    new = draw(GR.trees(syms, max_leaves=2))
    if p:
        node[p[-1]] = new
    else:
        s = ["+", s, new] if draw(st.booleans()) else new
    return s


ILL_AUTOMATON = ["", "initial", "q0 q1", "states q0\ninitial q0 q1\nfinal q0", "initial q0\nfinal q9\nstates q0", "final q0\nq0 q0 a", "@@@ ###", "initial q0\nq0 q-1 a",
                 "initial q0\ninitial q0\nq0 q0 a", "states q0 q1\ninitial q0\nq0 q2 a"]
ILL_CFG = ["", "S ->", "-> a", "S -> a | | b", "S => a", "S -> a ; b", "S - > a", "S -> (a)"]
ILL_REGEXP = ["(a+b", "a+*b", "a++b", "((", ")a(", "a+", "", "*a", "a b )", "(a+b))"]
ILL_FORMED = {"dfa": ILL_AUTOMATON, "nfa": ILL_AUTOMATON, "pda": ILL_AUTOMATON, "tm": ILL_AUTOMATON, "cfg": ILL_CFG, "regexp": ILL_REGEXP}


@st.composite
def late_difference_pair(draw):
    """Two small DFAs whose shortest distinguishing word is longer than either state count (but shorter than their sum):
    'number of a's = r (mod p)' against 'exactly r a's' (p and r+2 states, first difference a^(r+p)).  Over {a} or {a,b} with b ignored.
    Returns (reference, answer, length of the shortest distinguishing word)."""
    p = draw(st.integers(2, 5))
    r = draw(st.integers(1, p - 1)) if p > 2 else 1
    S = draw(st.sampled_from([["a"], ["a", "b"]]))
    pre = draw(st.sampled_from(["q", "s", "m"]))
    Qm = ["%s%d" % (pre, i) for i in range(p)]
    dm = [[Qm[i], "a", Qm[(i + 1) % p]] for i in range(p)] + [[q, "b", q] for q in Qm if "b" in S]
    mod = {"Q": Qm, "S": S, "d": dm, "q0": Qm[0], "F": [Qm[r]], "eps": None}
    Qe = ["c%d" % i for i in range(r + 2)]
    de = [[Qe[i], "a", Qe[min(i + 1, r + 1)]] for i in range(r + 2)] + [[q, "b", q] for q in Qe if "b" in S]
    exact = {"Q": Qe, "S": S, "d": de, "q0": Qe[0], "F": [Qe[r]], "eps": None}
    if draw(st.booleans()):
        return mod, exact, r + p
    return exact, mod, r + p
