"""Text-representable automaton specs and layouts."""
from hypothesis import strategies as st

from gen import fa as G, pda as GP, tm as GT
from ref import text as RT

PRINTABLE_EPS = ["ε", "_", "e"]


@st.composite
def text_specs(draw, kind, max_states=4):
    # state names that are declaration keywords of *other* automaton kinds are ordinary names for this kind
    other = {"dfa": ["accept", "reject", "blank", "epsilon", "tape_symbols", "stack_symbols"], "nfa": ["accept", "reject", "blank", "tape_symbols", "stack_symbols"],
             "pda": ["accept", "reject", "blank", "tape_symbols"], "tm": ["epsilon", "stack_symbols"]}[kind]
    pool = G.POOL[:10] + other if draw(st.integers(0, 4)) == 0 else G.POOL
    if kind == "dfa":
        return draw(G.dfa_specs(max_states=max_states, max_sigma=3, pool=pool))
    if kind == "nfa":
        return draw(G.nfa_specs(max_states=max_states, max_sigma=2, eps_choices=PRINTABLE_EPS + ["eps", "lambda"], pool=pool))
    if kind == "pda":
        return draw(GP.pda_specs(max_states=max_states, max_trans=6, eps_choices=PRINTABLE_EPS, min_trans=0, pool=pool))
    spec = draw(GT.tm_specs(max_states=max_states, halting_initial=True, pool=pool, halting_moves=True))
    k = draw(st.integers(0, 2))
    if k == 0:
        # default names for the halting states, as in the shipped examples
        m = {spec["acc"]: "accept", spec["rej"]: "reject"}
        if "accept" not in spec["Q"] and "reject" not in spec["Q"]:
            r = lambda q: m.get(q, q)
            # a line that starts with a keyword of the format itself is a declaration: the states 'accept' and 'reject' cannot be the source of a written transition
            spec = dict(spec, Q=[r(q) for q in spec["Q"]], d=[[r(p), a, r(q), b, mv] for p, a, q, b, mv in spec["d"] if p not in m], q0=r(spec["q0"]), acc="accept", rej="reject")
    if k == 1 and spec["S"]:
        spec = dict(spec, S=[])       # empty input alphabet with non-blank tape symbols
    return spec


@st.composite
def layouts(draw, kind, spec):
    can = RT.can_omit(kind, spec)
    omit = [k for k, ok in sorted(can.items()) if ok and draw(st.booleans())]
    if "accept_reject" in omit and "states" not in omit:
        if can.get("states"):
            omit.append("states")
        else:
            omit.remove("accept_reject")
    return {"omit": sorted(omit), "group": draw(st.booleans()), "order": draw(st.lists(st.integers(0, 9), max_size=8)),
            "comments": draw(st.booleans()), "tabs": draw(st.booleans()), "blank_lines": draw(st.booleans()),
            "pad": draw(st.booleans()), "trailing_newline": draw(st.booleans())}


# letters, digits and a few \w characters outside ASCII (some of them change under Unicode compatibility normalisation: µ ª ϕ ϵ ²)
WIDE = list("abcdefghijklmnopqrstuvwxyz0123456789") + ["µ", "ª", "ϕ", "ϵ", "²", "ß", "é", "λ"]


@st.composite
def wide_text_specs(draw, kind):
    """Few states, many symbols: one edge carries 9-20 labels (printers wrap or group long label lists)."""
    k = draw(st.integers(9, 20))
    start = draw(st.integers(0, len(WIDE) - k))
    S = WIDE[start:start + k] if draw(st.booleans()) else sorted(draw(st.permutations(WIDE))[:k])
    n = draw(st.integers(1, 3))
    Q = draw(G.names(n, G.POOL[:10]))
    main = {q: Q[draw(st.integers(0, n - 1))] for q in Q}

    def tgt(q):
        return main[q] if draw(st.integers(0, 9)) else Q[draw(st.integers(0, n - 1))]
    if kind == "dfa":
        return {"Q": Q, "S": S, "d": [[q, a, tgt(q)] for q in Q for a in S], "q0": Q[0], "F": G.finals(draw, Q), "eps": None}
    if kind == "nfa":
        eps = draw(st.sampled_from(PRINTABLE_EPS[:2]))
        d = []
        for q in Q:
            for a in S + [eps]:
                if draw(st.integers(0, 9)) < 8:
                    d.append([q, a, tgt(q)])
                    if draw(st.integers(0, 9)) == 0:
                        t = [q, a, Q[draw(st.integers(0, n - 1))]]
                        if t not in d:
                            d.append(t)
        return {"Q": Q, "S": S, "d": d, "q0": Q[0], "F": G.finals(draw, Q), "eps": eps, "rep": "dd_set"}
    if kind == "pda":
        eps = draw(st.sampled_from(PRINTABLE_EPS[:2]))
        S2 = S[:draw(st.integers(3, 6))]
        Gm = ["X", "Y", "$"]
        d = []
        for q in Q:
            for a in S2 + [eps]:
                for u in Gm + [eps]:
                    if draw(st.integers(0, 9)) < 6:
                        d.append([q, a, u, tgt(q), (Gm + [eps])[draw(st.integers(0, 3))]])
        return {"Q": Q, "S": S2, "G": Gm, "d": d, "q0": Q[0], "F": G.finals(draw, Q), "eps": eps}
    blank = draw(st.sampled_from(GT.BLANKS))
    Q = Q + [x for x in ["yes", "no"] if x not in Q][:2]
    if len(Q) < n + 2:
        Q = ["w%d" % i for i in range(n)] + ["yes", "no"]
        main = {q: Q[draw(st.integers(0, n - 1))] for q in Q}
    acc, rej = Q[-1], Q[-2]
    Sin = S[:draw(st.integers(0, k))]
    Gm = S + [blank]
    d = []
    for q in Q[:-2]:
        for a in Gm:
            if draw(st.integers(0, 9)) < 8:
                t = main[q] if draw(st.integers(0, 9)) else Q[draw(st.integers(0, len(Q) - 1))]
                d.append([q, a, t, Gm[draw(st.integers(0, len(Gm) - 1))], "LR"[draw(st.integers(0, 1))]])
    return {"Q": Q, "S": Sin, "G": Gm, "d": d, "q0": Q[0], "acc": acc, "rej": rej, "blank": blank}


@st.composite
def multichar_symbol_specs(draw, kind):
    """DFAs / NFAs whose input symbols have several characters (the formats separate labels by commas, so `10`, `ab` are ordinary symbols): numbers that cross a
    digit boundary (0 .. 10-12) or words that are prefixes / concatenations of each other; the transitions are listed in a generated order."""
    assert kind in ("dfa", "nfa")
    if draw(st.booleans()):
        S = [str(i) for i in range(draw(st.integers(0, 1)), draw(st.integers(10, 12)) + 1)]
    else:
        S = draw(st.sampled_from([["a", "ab", "b"], ["a", "b", "ab", "ba"], ["x", "xy", "xyz", "yz", "z"], ["a", "aa", "aaa"], ["1", "11", "12", "2"]]))
    n = draw(st.integers(1, 3))
    Q = draw(G.names(n, G.POOL[:10]))
    if kind == "dfa":
        d = [[q, a, Q[draw(st.integers(0, n - 1))]] for q in Q for a in S]
        d = list(draw(st.permutations(d)))
        return {"Q": Q, "S": S, "d": d, "q0": Q[0], "F": G.finals(draw, Q), "eps": None}
    eps = draw(st.sampled_from(PRINTABLE_EPS[:2]))
    d = []
    for q in Q:
        for a in S + [eps]:
            for t in Q:
                if draw(st.integers(0, 3)) == 0:
                    d.append([q, a, t])
    d = list(draw(st.permutations(d)))
    return {"Q": Q, "S": S, "d": d, "q0": Q[0], "F": G.finals(draw, Q), "eps": eps, "rep": "dd_set"}
