"""Text-representable automaton specs and layouts."""
from hypothesis import strategies as st

from gen import fa as G, pda as GP, tm as GT
from ref import text as RT

PRINTABLE_EPS = ["ε", "_", "e"]


@st.composite
def text_specs(draw, kind, max_states=4):
    # state names that are declaration keywords of *other* automaton kinds are ordinary names for this kind
    other = {"dfa": ["accept", "reject", "blank", "epsilon", "tape_symbols", "stack_symbols"], "nfa": ["accept", "reject", "blank", "tape_symbols", "stack_symbols"],
             "pda": ["accept", "reject", "blank", "tape_symbols"], "tm": ["epsilon", "stack_symbols"]}[kind]
    pool = G.POOL[:10] + other if draw(st.integers(0, 4)) == 0 else G.POOL
    if kind == "dfa":
        return draw(G.dfa_specs(max_states=max_states, max_sigma=3, pool=pool))
    if kind == "nfa":
        return draw(G.nfa_specs(max_states=max_states, max_sigma=2, eps_choices=PRINTABLE_EPS + ["eps", "lambda"], pool=pool))
    if kind == "pda":
        return draw(GP.pda_specs(max_states=max_states, max_trans=6, eps_choices=PRINTABLE_EPS, min_trans=0, pool=pool))
    spec = draw(GT.tm_specs(max_states=max_states, halting_initial=True, pool=pool))
    k = draw(st.integers(0, 2))
    if k == 0:
        # default names for the halting states, as in the shipped examples
        m = {spec["acc"]: "accept", spec["rej"]: "reject"}
        if "accept" not in spec["Q"] and "reject" not in spec["Q"]:
            r = lambda q: m.get(q, q)
            spec = dict(spec, Q=[r(q) for q in spec["Q"]], d=[[r(p), a, r(q), b, mv] for p, a, q, b, mv in spec["d"]], q0=r(spec["q0"]), acc="accept", rej="reject")
    if k == 1 and spec["S"]:
        spec = dict(spec, S=[])       # empty input alphabet with non-blank tape symbols
    return spec


@st.composite
def layouts(draw, kind, spec):
    can = RT.can_omit(kind, spec)
    omit = [k for k, ok in sorted(can.items()) if ok and draw(st.booleans())]
    if "accept_reject" in omit and "states" not in omit:
        if can.get("states"):
            omit.append("states")
        else:
            omit.remove("accept_reject")
    return {"omit": sorted(omit), "group": draw(st.booleans()), "order": draw(st.lists(st.integers(0, 9), max_size=8)),
            "comments": draw(st.booleans()), "tabs": draw(st.booleans()), "blank_lines": draw(st.booleans()),
            "pad": draw(st.booleans()), "trailing_newline": draw(st.booleans())}
