"""Independent renderers of the line-based automaton text format (doc/main.tex, section Syntax) in many
layouts, the expected parse under the documented defaults, and single-fault corruptions.

No library import.  Specs as in ref/fa.py, ref/pda.py, ref/tm.py.
"""

KINDS = ("dfa", "nfa", "pda", "tm")


def labels(kind, spec):
    """List of (p, q, label, key) for every transition."""
    out = []
    if kind in ("dfa", "nfa"):
        for p, a, q in spec["d"]:
            out.append((p, q, a))
    elif kind == "pda":
        for p, a, u, q, v in spec["d"]:
            out.append((p, q, "%s,%s%s" % (a, u, v)))
    else:
        for p, a, q, b, m in spec["d"]:
            out.append((p, q, "%s%s,%s" % (a, b, m)))
    return out


def used_states(kind, spec):
    s = {spec["q0"]}
    if kind == "tm":
        pass
    else:
        s |= set(spec["F"])
    for p, q, _ in labels(kind, spec):
        s.add(p)
        s.add(q)
    return s


def can_omit(kind, spec):
    """Which optional declarations may be omitted without changing the described automaton."""
    lab = labels(kind, spec)
    res = {}
    if kind == "tm":
        # accept/reject lines may be left out only with the default names and (see the shipped examples) without a states line
        res["accept_reject"] = spec["acc"] == "accept" and spec["rej"] == "reject"
        res["states"] = used_states(kind, spec) | {spec["acc"], spec["rej"]} == set(spec["Q"])
    else:
        res["states"] = used_states(kind, spec) == set(spec["Q"])
    if kind == "dfa":
        res["input"] = {a for _, a, _ in spec["d"]} == set(spec["S"])
    elif kind == "nfa":
        eps = spec["eps"]
        res["input"] = {a for _, a, _ in spec["d"] if a != eps} == set(spec["S"])
    elif kind == "pda":
        eps = spec["eps"]
        res["input"] = {t[1] for t in spec["d"] if t[1] != eps} == set(spec["S"])
        res["stack"] = ({t[2] for t in spec["d"]} | {t[4] for t in spec["d"]}) - {eps} == set(spec["G"])
    else:
        blank = spec["blank"]
        usedg = {t[1] for t in spec["d"]} | {t[3] for t in spec["d"]}
        res["tape"] = usedg | {blank} == set(spec["G"])
        # without a declaration the input alphabet is every non-blank tape symbol; an empty declaration means "none"
        res["input"] = set(spec["G"]) - {blank} == set(spec["S"]) and bool(spec["S"])
    if kind in ("nfa", "pda"):
        eps = spec["eps"]
        occurs = any("ε" in l for _, _, l in lab)
        res["eps"] = (eps == "ε" and occurs) or (eps == "_" and not occurs)
    if kind == "tm":
        blank = spec["blank"]
        occurs = any("□" in l for _, _, l in lab)
        res["eps"] = (blank == "□" and occurs) or (blank == "_" and not occurs)
    return res


def render(kind, spec, layout):
    """layout keys: omit (set of names from can_omit that are really omitted), group (bool: several labels per line),
    order (list of ints used to permute lines), comments (bool), tabs (bool), blank_lines (bool)."""
    omit = set(layout.get("omit", ()))
    sep = "\t" if layout.get("tabs") else " "
    lines = []
    if "states" not in omit:
        lines.append(sep.join(["states"] + list(spec["Q"])))
    lines.append(sep.join(["initial", spec["q0"]]))
    if kind == "tm":
        if "accept_reject" not in omit:
            lines.append(sep.join(["accept", spec["acc"]]))
            lines.append(sep.join(["reject", spec["rej"]]))
    else:
        lines.append(sep.join(["final"] + list(spec["F"])))
    if "input" not in omit:
        lines.append(sep.join(["input_symbols"] + list(spec["S"])))
    if kind == "pda" and "stack" not in omit:
        lines.append(sep.join(["stack_symbols"] + list(spec["G"])))
    if kind == "tm" and "tape" not in omit:
        lines.append(sep.join(["tape_symbols"] + list(spec["G"])))
    if kind in ("nfa", "pda") and "eps" not in omit:
        lines.append(sep.join(["epsilon", spec["eps"]]))
    if kind == "tm" and "eps" not in omit:
        lines.append(sep.join(["blank", spec["blank"]]))
    lab = labels(kind, spec)
    if layout.get("group"):
        groups = {}
        for p, q, l in lab:
            groups.setdefault((p, q), []).append(l)
        for (p, q), ls in groups.items():
            lines.append(sep.join([p, q] + ls))
    else:
        for p, q, l in lab:
            lines.append(sep.join([p, q, l]))
    order = layout.get("order") or []
    if order:
        keyed = sorted(range(len(lines)), key=lambda i: (order[i % len(order)], i))
        lines = [lines[i] for i in keyed]
    out = []
    for i, l in enumerate(lines):
        if layout.get("comments") and i % 3 == 0:
            out.append("% a comment line, initial final states")
        if layout.get("blank_lines") and i % 4 == 1:
            out.append("   ")
        out.append(("  " + l + " ") if layout.get("pad") else l)
    if layout.get("comments"):
        out.append("%% key = value")
    return "\n".join(out) + ("\n" if layout.get("trailing_newline") else "")


def canon(kind, spec):
    """Comparable form of a spec / snapshot."""
    c = {"Q": sorted(spec["Q"]), "S": sorted(spec["S"]), "q0": spec["q0"], "d": sorted(list(t) for t in spec["d"])}
    if kind in ("dfa", "nfa", "pda"):
        c["F"] = sorted(spec["F"])
    if kind in ("nfa", "pda"):
        c["eps"] = spec["eps"]
    if kind in ("pda", "tm"):
        c["G"] = sorted(spec["G"])
    if kind == "tm":
        c.update(acc=spec["acc"], rej=spec["rej"], blank=spec["blank"])
    return c


# ---------------- single-fault corruptions: each result must be rejected ----------------

def corruptions(kind, spec, other_state="zz9", other_symbol="k"):
    """Returns list of (class, text).  The base text declares everything explicitly, so that a fault cannot be
    'repaired' by deriving a declaration from the transitions."""
    base = render(kind, spec, {"group": False})
    L = base.split("\n")
    out = []

    ntrans = len(labels(kind, spec))
    trans_start = len(L) - ntrans          # render() writes the declarations first, then one line per transition

    def idx(prefix):
        return next(i for i, l in enumerate(L[:trans_start]) if l.split()[0] == prefix)

    def without(i):
        return "\n".join(L[:i] + L[i + 1:])

    def add(line):
        return "\n".join(L + [line])

    trans = L[trans_start:]
    q = spec["Q"][0]
    # structural faults common to all kinds
    out.append(("no_initial", without(idx("initial"))))
    def decl(first, fn):
        return "\n".join(fn(l) if i < trans_start and l.split()[0] == first else l for i, l in enumerate(L))
    out.append(("empty_initial", decl("initial", lambda l: "initial")))
    if len(spec["Q"]) >= 2:
        out.append(("two_initial", decl("initial", lambda l: "initial %s %s" % (spec["Q"][0], spec["Q"][1]))))
    for key in ("states", "initial", "input_symbols") + (("final",) if kind != "tm" else ("accept", "reject", "tape_symbols", "blank")) + \
            (("epsilon",) if kind in ("nfa", "pda") else ()) + (("stack_symbols",) if kind == "pda" else ()):
        out.append(("repeated_" + key, add(L[idx(key)])))
    out.append(("incomplete_transition", add("%s %s" % (q, q))))
    out.append(("illegal_state_label", add("%s q-1 %s" % (q, trans[0].split()[2] if trans else "a"))))
    out.append(("undeclared_state", add("%s %s %s" % (q, other_state, trans[0].split()[2])) if trans else add("initial_state_%s %s x" % (q, other_state))))
    if kind != "tm":
        out.append(("undeclared_final_state", decl("final", lambda l: l + " " + other_state)))
    # symbol faults
    if kind == "dfa":
        if spec["S"]:
            a = spec["S"][0]
            tgt = next(t[2] for t in spec["d"] if t[0] == q and t[1] == a)
            others = [x for x in spec["Q"] if x != tgt]
            if others:
                out.append(("nondeterministic", add("%s %s %s" % (q, others[0], a))))
            i = next(i for i, l in enumerate(L) if i >= trans_start and l.split() == [q, tgt, a])
            out.append(("not_total", without(i)))
            out.append(("undeclared_symbol", add("%s %s %s" % (q, q, other_symbol))))
    elif kind == "nfa":
        out.append(("undeclared_symbol", add("%s %s %s" % (q, q, other_symbol))))
    if kind in ("dfa", "nfa") and spec["S"]:
        a = spec["S"][0]
        out.append(("label_in_pda_format", add("%s %s %s,%s%s" % (q, q, a, a, a))))
        out.append(("label_in_tm_format", add("%s %s %s%s,R" % (q, q, a, a))))
    if kind == "pda":
        eps = spec["eps"]
        out.append(("undeclared_input_symbol", add("%s %s %s,%s%s" % (q, q, other_symbol, eps, eps))))
        out.append(("undeclared_stack_symbol", add("%s %s %s,%s%s" % (q, q, eps, eps, "K"))))
        out.append(("malformed_label_short", add("%s %s %s,%s" % (q, q, eps, eps))))
        out.append(("malformed_label_no_comma", add("%s %s %s%s%s" % (q, q, eps, eps, eps))))
        out.append(("malformed_label_long", add("%s %s %s,%s%s%s" % (q, q, eps, eps, eps, eps))))
        out.append(("label_in_tm_format", add("%s %s %s%s,R" % (q, q, eps, eps))))
        out.append(("label_in_fa_format", add("%s %s %s" % (q, q, spec["S"][0] if spec["S"] else eps))))
    elif kind == "tm":
        b = spec["blank"]
        out.append(("undeclared_tape_symbol", add("%s %s %s%s,R" % (q, q, "K", b))))
        out.append(("malformed_label_direction", add("%s %s %s%s,X" % (q, q, b, b))))
        out.append(("malformed_label_short", add("%s %s %s,R" % (q, q, b))))
        out.append(("malformed_label_no_comma", add("%s %s %s%sR" % (q, q, b, b))))
        out.append(("label_in_pda_format", add("%s %s %s,%s%s" % (q, q, b, b, b))))
        out.append(("label_in_fa_format", add("%s %s %s" % (q, q, b))))
        if spec["S"]:
            out.append(("input_symbol_not_on_tape", decl("input_symbols", lambda l: l + " K")))
    if kind == "nfa":
        # a label that is not a word (\w+) in a description that leaves the alphabet to be derived from the transitions
        bare = undeclared_base(kind, spec)
        for bad in ("#", "a-c", "a,b"):
            out.append(("symbol_not_a_word_alphabet_omitted", bare + "\n%s %s %s" % (q, q, bad)))
    if kind in ("pda", "tm"):
        # the same ill-formed labels in a description that leaves the alphabets to be derived from the transitions
        bare = undeclared_base(kind, spec)
        for name, text in list(out):
            if name.startswith("malformed_label") or name.startswith("label_in_"):
                out.append((name + "_alphabets_omitted", bare + "\n" + text.split("\n")[-1]))
    return out


def undeclared_base(kind, spec):
    """The description without the optional alphabet declarations (they are derived from the transitions then)."""
    return render(kind, spec, {"group": False, "omit": ["input", "stack"] if kind == "pda" else (["input", "tape"] if kind == "tm" else ["input"])})
