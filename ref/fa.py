"""Reference semantics for finite automata.  Imports nothing from the library under test.

Spec formats (plain JSON-able data):
  NFA/DFA spec: {"Q":[..], "S":[..], "d":[[p,a,q],..], "q0":.., "F":[..], "eps": <str or None>}
  A DFA spec is an NFA spec whose transition triples happen to be functional.
Reference DFA ("rdfa"): dict with keys Q (list), S (sorted list), d (dict (q,a)->q), q0, F (set); total.
"""
from collections import deque


def _edges(spec):
    sym = {}
    eps = {}
    e = spec.get("eps")
    for p, a, q in spec["d"]:
        if e is not None and a == e:
            eps.setdefault(p, set()).add(q)
        else:
            sym.setdefault((p, a), set()).add(q)
    return sym, eps


def eclose(spec, S):
    """States reachable from the set S by epsilon moves alone (DFS)."""
    _, eps = _edges(spec)
    seen = set(S)
    stack = list(S)
    while stack:
        p = stack.pop()
        for q in eps.get(p, ()):
            if q not in seen:
                seen.add(q)
                stack.append(q)
    return seen


def nfa_accepts(spec, w):
    """An accepting run exists: reachability in the graph over (state, position)."""
    sym, eps = _edges(spec)
    n = len(w)
    start = (spec["q0"], 0)
    seen = {start}
    todo = [start]
    F = set(spec["F"])
    while todo:
        q, i = todo.pop()
        if i == n and q in F:
            return True
        for q1 in eps.get(q, ()):
            if (q1, i) not in seen:
                seen.add((q1, i))
                todo.append((q1, i))
        if i < n:
            for q1 in sym.get((q, w[i]), ()):
                if (q1, i + 1) not in seen:
                    seen.add((q1, i + 1))
                    todo.append((q1, i + 1))
    return False


def determinise(spec, alphabet=None, inits=None):
    """Subset construction on frozensets.  Missing moves lead to the empty set (a sink)."""
    sym, _ = _edges(spec)
    S = sorted(alphabet if alphabet is not None else spec["S"])
    init = frozenset(eclose(spec, set(inits) if inits is not None else {spec["q0"]}))
    Q = [init]
    index = {init}
    d = {}
    F = set()
    Fs = set(spec["F"])
    todo = deque([init])
    while todo:
        X = todo.popleft()
        if X & Fs:
            F.add(X)
        for a in S:
            Y = set()
            for p in X:
                Y |= sym.get((p, a), set())
            Y = frozenset(eclose(spec, Y))
            d[X, a] = Y
            if Y not in index:
                index.add(Y)
                Q.append(Y)
                todo.append(Y)
    return {"Q": Q, "S": S, "d": d, "q0": init, "F": F}


def rdfa(spec):
    """Reference DFA from a DFA spec, keeping all states (also unreachable ones).
    A missing move goes to a fresh sink (reject)."""
    S = sorted(spec["S"])
    d = {}
    for p, a, q in spec["d"]:
        assert (p, a) not in d or d[p, a] == q, "not deterministic"
        d[p, a] = q
    Q = list(spec["Q"])
    sink = ("#sink",)
    need = False
    for q in Q:
        for a in S:
            if (q, a) not in d:
                d[q, a] = sink
                need = True
    if need:
        Q.append(sink)
        for a in S:
            d[sink, a] = sink
    return {"Q": Q, "S": S, "d": d, "q0": spec["q0"], "F": set(spec["F"])}


def reachable(A):
    seen = {A["q0"]}
    todo = deque([A["q0"]])
    order = [A["q0"]]
    while todo:
        q = todo.popleft()
        for a in A["S"]:
            q1 = A["d"][q, a]
            if q1 not in seen:
                seen.add(q1)
                order.append(q1)
                todo.append(q1)
    return order


def equiv(A, B):
    """None if L(A) == L(B); otherwise a shortest distinguishing word (BFS over the product)."""
    assert A["S"] == B["S"], (A["S"], B["S"])
    start = (A["q0"], B["q0"])
    seen = {start}
    todo = deque([(start, "")])
    while todo:
        (p, q), w = todo.popleft()
        if (p in A["F"]) != (q in B["F"]):
            return w
        for a in A["S"]:
            nxt = (A["d"][p, a], B["d"][q, a])
            if nxt not in seen:
                seen.add(nxt)
                todo.append((nxt, w + a))
    return None


def accepts_rdfa(A, w):
    q = A["q0"]
    for a in w:
        q = A["d"][q, a]
    return q in A["F"]


def moore_classes(A, states=None):
    """Myhill-Nerode classes by Moore refinement over the given states (default all,
    which must be closed under transitions).  Returns dict state -> class id."""
    Q = list(A["Q"]) if states is None else list(states)
    cls = {q: (1 if q in A["F"] else 0) for q in Q}
    while True:
        sig = {q: (cls[q],) + tuple(cls[A["d"][q, a]] for a in A["S"]) for q in Q}
        ids = {}
        new = {}
        for q in Q:
            new[q] = ids.setdefault(sig[q], len(ids))
        if len(set(new.values())) == len(set(cls.values())):
            return new
        cls = new


def n_classes(A, states=None):
    return len(set(moore_classes(A, states).values()))


def canonical_min(A):
    """Canonical form of the minimal DFA of L(A): (alphabet, transition rows, finals) with BFS numbering."""
    R = reachable(A)
    cls = moore_classes(A, R)
    rep = {}
    for q in R:
        rep.setdefault(cls[q], q)
    num = {cls[A["q0"]]: 0}
    order = [cls[A["q0"]]]
    rows = []
    i = 0
    while i < len(order):
        c = order[i]
        i += 1
        row = []
        for a in A["S"]:
            c1 = cls[A["d"][rep[c], a]]
            if c1 not in num:
                num[c1] = len(num)
                order.append(c1)
            row.append(num[c1])
        rows.append(tuple(row))
    finals = tuple(sorted(num[c] for c in order if rep[c] in A["F"]))
    return (tuple(A["S"]), tuple(rows), finals)


def iso_reachable(A, B):
    """True iff the reachable parts of A and B are isomorphic as DFAs (forced matching)."""
    assert A["S"] == B["S"]
    f = {A["q0"]: B["q0"]}
    g = {B["q0"]: A["q0"]}
    todo = deque([A["q0"]])
    while todo:
        p = todo.popleft()
        q = f[p]
        if (p in A["F"]) != (q in B["F"]):
            return False
        for a in A["S"]:
            p1, q1 = A["d"][p, a], B["d"][q, a]
            if p1 in f:
                if f[p1] != q1:
                    return False
            elif q1 in g:
                return False
            else:
                f[p1] = q1
                g[q1] = p1
                todo.append(p1)
    return True


# ----- language operations on reference DFAs (all total, same alphabet) -----

def product(A, B, op):
    assert A["S"] == B["S"]
    Q, d, F = [], {}, set()
    start = (A["q0"], B["q0"])
    seen = {start}
    todo = deque([start])
    while todo:
        x = todo.popleft()
        Q.append(x)
        if op(x[0] in A["F"], x[1] in B["F"]):
            F.add(x)
        for a in A["S"]:
            y = (A["d"][x[0], a], B["d"][x[1], a])
            d[x, a] = y
            if y not in seen:
                seen.add(y)
                todo.append(y)
    return {"Q": Q, "S": A["S"], "d": d, "q0": start, "F": F}


def complement(A):
    return {"Q": A["Q"], "S": A["S"], "d": A["d"], "q0": A["q0"], "F": set(A["Q"]) - set(A["F"])}


def to_spec(A, eps=None):
    """rdfa -> NFA spec (states renamed to integers to stay JSON-able is not needed here)."""
    return {"Q": list(A["Q"]), "S": list(A["S"]), "d": [[p, a, q] for (p, a), q in A["d"].items()],
            "q0": A["q0"], "F": list(A["F"]), "eps": eps}


def reverse(A):
    """rdfa for the mirror image of L(A)."""
    spec = {"Q": list(A["Q"]), "S": list(A["S"]), "d": [[q, a, p] for (p, a), q in A["d"].items()],
            "q0": None, "F": [A["q0"]], "eps": None}
    return determinise(spec, inits=set(A["F"]))


def no_prefix(A):
    """Words of L(A) none of whose proper prefixes is in L(A)."""
    Q, d, F = [], {}, set()
    start = (A["q0"], False)
    seen = {start}
    todo = deque([start])
    while todo:
        x = todo.popleft()
        Q.append(x)
        q, bad = x
        if q in A["F"] and not bad:
            F.add(x)
        for a in A["S"]:
            y = (A["d"][q, a], bad or q in A["F"])
            d[x, a] = y
            if y not in seen:
                seen.add(y)
                todo.append(y)
    return {"Q": Q, "S": A["S"], "d": d, "q0": start, "F": F}


def no_extend(A):
    """Words of L(A) that are not a proper prefix of any word in L(A)."""
    # states from which an accepting state is reachable in >= 1 steps
    F = set()
    for f in A["F"]:
        seen = set()
        todo = [A["d"][f, a] for a in A["S"]]
        hit = False
        while todo:
            q = todo.pop()
            if q in seen:
                continue
            seen.add(q)
            if q in A["F"]:
                hit = True
                break
            todo.extend(A["d"][q, a] for a in A["S"])
        if not hit:
            F.add(f)
    return {"Q": A["Q"], "S": A["S"], "d": A["d"], "q0": A["q0"], "F": F}


# ----- epsilon-NFA constructions on specs (for C18) -----

def _tag(spec, t):
    r = lambda q: (t, q)
    return {"Q": [r(q) for q in spec["Q"]], "S": list(spec["S"]),
            "d": [[r(p), ("eps",) if a == spec.get("eps") and spec.get("eps") is not None else a, r(q)] for p, a, q in spec["d"]],
            "q0": r(spec["q0"]), "F": [r(q) for q in spec["F"]], "eps": ("eps",)}


def nfa_union(s1, s2):
    a, b = _tag(s1, 1), _tag(s2, 2)
    q0 = (0, "new")
    return {"Q": [q0] + a["Q"] + b["Q"], "S": sorted(set(a["S"]) | set(b["S"])),
            "d": a["d"] + b["d"] + [[q0, ("eps",), a["q0"]], [q0, ("eps",), b["q0"]]],
            "q0": q0, "F": a["F"] + b["F"], "eps": ("eps",)}


def nfa_concat(s1, s2):
    a, b = _tag(s1, 1), _tag(s2, 2)
    return {"Q": a["Q"] + b["Q"], "S": sorted(set(a["S"]) | set(b["S"])),
            "d": a["d"] + b["d"] + [[f, ("eps",), b["q0"]] for f in a["F"]],
            "q0": a["q0"], "F": b["F"], "eps": ("eps",)}


def nfa_star(s1):
    a = _tag(s1, 1)
    q0 = (0, "new")
    return {"Q": [q0] + a["Q"], "S": list(a["S"]),
            "d": a["d"] + [[f, ("eps",), a["q0"]] for f in a["F"]] + [[q0, ("eps",), a["q0"]]],
            "q0": q0, "F": [q0] + a["F"], "eps": ("eps",)}


# ----- validity predicates on snapshots -----

def valid_dfa_snapshot(s):
    """Class invariant of a total DFA; returns an error string or None."""
    Q, S = set(s["Q"]), set(s["S"])
    if s["q0"] not in Q:
        return "q0 not in Q"
    if not set(s["F"]) <= Q:
        return "F not a subset of Q"
    seen = {}
    for p, a, q in s["d"]:
        if p not in Q or q not in Q:
            return "transition outside Q: %r" % ((p, a, q),)
        if a not in S:
            return "transition symbol outside Sigma: %r" % ((p, a, q),)
        if (p, a) in seen and seen[p, a] != q:
            return "not deterministic at %r" % ((p, a),)
        seen[p, a] = q
    for q in Q:
        for a in S:
            if (q, a) not in seen:
                return "not total at %r" % ((q, a),)
    return None


def valid_nfa_snapshot(s):
    Q, S = set(s["Q"]), set(s["S"])
    eps = s.get("eps")
    if s["q0"] not in Q:
        return "q0 not in Q"
    if not set(s["F"]) <= Q:
        return "F not a subset of Q"
    if eps in S:
        return "epsilon in Sigma"
    for p, a, q in s["d"]:
        if p not in Q or q not in Q:
            return "transition outside Q: %r" % ((p, a, q),)
        if a != eps and a not in S:
            return "transition symbol outside Sigma+eps: %r" % ((p, a, q),)
    return None


# ----- brute force (second implementation, used by the self-test) -----

def words_upto(S, n):
    out = [""]
    layer = [""]
    for _ in range(n):
        layer = [w + a for w in layer for a in sorted(S)]
        out.extend(layer)
    return out


def nfa_accepts_bruteforce(spec, w):
    """Enumerate runs explicitly: configurations (state, rest) by BFS without memoising positions."""
    eps = spec.get("eps")
    cur = {spec["q0"]}
    def close(X):
        X = set(X)
        while True:
            Y = {q for p, a, q in spec["d"] if eps is not None and a == eps and p in X} | X
            if Y == X:
                return X
            X = Y
    cur = close(cur)
    for c in w:
        cur = close({q for p, a, q in spec["d"] if p in cur and a == c and not (eps is not None and a == eps)})
    return bool(cur & set(spec["F"]))
