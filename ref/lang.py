"""Set-comprehension definitions of the finite-language operations (from the helpers' docstrings)."""
import itertools


def reverse(L):
    return {w[::-1] for w in L}


def no_prefix(L):
    """all words w in L such that no proper prefix of w is in L"""
    return {w for w in L if not any(w[:i] in L for i in range(len(w)))}


def no_extend(L):
    """all words w in L such that w is not a proper prefix of any word in L"""
    return {w for w in L if not any(v != w and v[:len(w)] == w for v in L)}


def concat(L1, L2):
    return {x + y for x in L1 for y in L2}


def words_of_length(S, n):
    return {"".join(t) for t in itertools.product(sorted(S), repeat=n)}


def words_up_to(S, n):
    out = set()
    for i in range(n + 1):
        out |= words_of_length(S, i)
    return out
