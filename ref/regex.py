"""Reference semantics of regular expressions (no library import).

Tree format (JSON-able): ["0"], ["1"], ["s", a], ["*", r], ["+", r, s], [".", r, s]
"""
from collections import deque


def size(r):
    """Number of nodes of the tree."""
    return 1 + sum(size(x) for x in r[1:] if isinstance(x, list))


def symbols(r):
    """The characters that occur in symbols (a multi-character symbol s denotes the language {s})."""
    if r[0] == "s":
        return set(r[1])
    return set().union(*[symbols(x) for x in r[1:] if isinstance(x, list)]) if len(r) > 1 else set()


# ---- normal forms for derivatives: tuples, sums as frozensets (ACI) ----
ZERO, ONE = ("0",), ("1",)


def _sum(xs):
    flat = set()
    for x in xs:
        if x[0] == "+":
            flat |= x[1]
        elif x != ZERO:
            flat.add(x)
    if not flat:
        return ZERO
    if len(flat) == 1:
        return next(iter(flat))
    return ("+", frozenset(flat))


def _cat(a, b):
    if a == ZERO or b == ZERO:
        return ZERO
    if a == ONE:
        return b
    if b == ONE:
        return a
    if a[0] == ".":
        return (".", a[1], _cat(a[2], b))
    return (".", a, b)


def _star(a):
    if a in (ZERO, ONE):
        return ONE
    if a[0] == "*":
        return a
    return ("*", a)


def norm(r):
    t = r[0]
    if t == "0":
        return ZERO
    if t == "1":
        return ONE
    if t == "s":
        out = ONE
        for ch in reversed(r[1]):
            out = _cat(("s", ch), out)
        return out
    if t == "*":
        return _star(norm(r[1]))
    if t == "+":
        return _sum([norm(r[1]), norm(r[2])])
    if t == ".":
        return _cat(norm(r[1]), norm(r[2]))
    raise ValueError(r)


def nullable(n):
    t = n[0]
    if t == "0" or t == "s":
        return False
    if t == "1" or t == "*":
        return True
    if t == "+":
        return any(nullable(x) for x in n[1])
    return nullable(n[1]) and nullable(n[2])


def deriv(n, a):
    t = n[0]
    if t in ("0", "1"):
        return ZERO
    if t == "s":
        return ONE if n[1] == a else ZERO
    if t == "*":
        return _cat(deriv(n[1], a), n)
    if t == "+":
        return _sum([deriv(x, a) for x in n[1]])
    left = _cat(deriv(n[1], a), n[2])
    return _sum([left, deriv(n[2], a)]) if nullable(n[1]) else left


def matches(r, w):
    n = norm(r)
    for a in w:
        n = deriv(n, a)
        if n == ZERO:
            return False
    return nullable(n)


def to_dfa(r, sigma):
    """Derivative automaton as a reference DFA over the given alphabet."""
    S = sorted(sigma)
    q0 = norm(r)
    Q = [q0]
    seen = {q0}
    d = {}
    todo = deque([q0])
    while todo:
        q = todo.popleft()
        for a in S:
            q1 = deriv(q, a)
            d[q, a] = q1
            if q1 not in seen:
                seen.add(q1)
                Q.append(q1)
                todo.append(q1)
                if len(Q) > 20000:
                    raise RuntimeError("derivative automaton too large")
    return {"Q": Q, "S": S, "d": d, "q0": q0, "F": {q for q in Q if nullable(q)}}


# ---- second implementation: Glushkov position automaton ----

def _expand(s):
    """multi-character symbol -> concatenation tree of its characters"""
    if len(s) == 0:
        return ["1"]
    t = ["s", s[-1]]
    for ch in reversed(s[:-1]):
        t = [".", ["s", ch], t]
    return t


def glushkov(r):
    """Returns an NFA spec without eps-moves whose states are positions."""
    pos = []

    def go(x):
        # returns (nullable, first, last); follow collected in fol
        t = x[0]
        if t == "0":
            return False, set(), set()
        if t == "1":
            return True, set(), set()
        if t == "s":
            if len(x[1]) != 1:
                return go(_expand(x[1]))
            pos.append(x[1])
            p = len(pos)
            fol[p] = set()
            return False, {p}, {p}
        if t == "*":
            n, f, l = go(x[1])
            for p in l:
                fol[p] |= f
            return True, f, l
        if t == "+":
            n1, f1, l1 = go(x[1])
            n2, f2, l2 = go(x[2])
            return n1 or n2, f1 | f2, l1 | l2
        n1, f1, l1 = go(x[1])
        n2, f2, l2 = go(x[2])
        for p in l1:
            fol[p] |= f2
        return n1 and n2, f1 | (f2 if n1 else set()), l2 | (l1 if n2 else set())

    fol = {}
    n, first, last = go(r)
    d = [[0, pos[p - 1], p] for p in first]
    for p, F in fol.items():
        d += [[p, pos[q - 1], q] for q in F]
    return {"Q": list(range(len(pos) + 1)), "S": sorted(set(pos)), "d": d, "q0": 0,
            "F": sorted(last | ({0} if n else set())), "eps": None}


def to_dfa2(r, sigma):
    from ref import fa
    return fa.determinise(glushkov(r), alphabet=sorted(sigma))


# ---- rendering (independent of the library's printers) ----

def render_full(r):
    """Fully parenthesised dotted syntax."""
    t = r[0]
    if t in ("0", "1"):
        return t
    if t == "s":
        return r[1]
    if t == "*":
        return "(%s)*" % render_full(r[1])
    return "(%s %s %s)" % (render_full(r[1]), t, render_full(r[2]))
