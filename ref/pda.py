"""Reference semantics of pushdown automata (Sipser style, acceptance by final state).  No library import.

Spec: {"Q":[..], "S":[..], "G":[..], "d":[[p,a,u,q,v],..], "q0":.., "F":[..], "eps":e}
A transition reads a (or nothing if a == eps), pops u (if u != eps; requires u on top) and pushes v (if v != eps).
"""
from collections import deque


def _moves(spec, w):
    """Split every transition into no-op / push / pop moves between nodes (state, position)."""
    eps = spec["eps"]
    n = len(w)
    noop, push, pop = {}, {}, {}
    for t, (p, a, u, q, v) in enumerate(spec["d"]):
        for i in range(n + 1):
            if a == eps:
                j = i
            elif i < n and w[i] == a:
                j = i + 1
            else:
                continue
            x, y = (p, i), (q, j)
            if u == eps and v == eps:
                noop.setdefault(x, set()).add(y)
            elif u == eps:
                push.setdefault(x, set()).add((v, y))
            elif v == eps:
                pop.setdefault(x, set()).add((u, y))
            else:
                mid = (("mid", t), j)
                pop.setdefault(x, set()).add((u, mid))
                push.setdefault(mid, set()).add((v, y))
    return noop, push, pop


def _balanced(noop, push, pop, nodes):
    """B[x] = nodes reachable from x with net stack effect zero, never going below the starting level."""
    W = {}
    while True:
        # closure of noop + W from every node
        B = {}
        for x in nodes:
            seen = {x}
            todo = [x]
            while todo:
                y = todo.pop()
                for z in noop.get(y, ()):
                    if z not in seen:
                        seen.add(z)
                        todo.append(z)
                for z in W.get(y, ()):
                    if z not in seen:
                        seen.add(z)
                        todo.append(z)
            B[x] = seen
        W2 = {}
        for y, outs in push.items():
            for X, y2 in outs:
                for z2 in B[y2]:
                    for X2, z in pop.get(z2, ()):
                        if X2 == X:
                            W2.setdefault(y, set()).add(z)
        if W2 == W:
            return B, W
        W = W2


def _nodes(spec, w, noop, push, pop):
    nodes = {(q, i) for q in spec["Q"] for i in range(len(w) + 1)}
    for m in (noop, push, pop):
        for x, outs in m.items():
            nodes.add(x)
            for o in outs:
                nodes.add(o if m is noop else o[1])
    return nodes


def accepts(spec, w):
    noop, push, pop = _moves(spec, w)
    nodes = _nodes(spec, w, noop, push, pop)
    B, W = _balanced(noop, push, pop, nodes)
    start = (spec["q0"], 0)
    seen = set(B[start])
    todo = list(seen)
    while todo:
        y = todo.pop()
        for X, y2 in push.get(y, ()):
            for z in B[y2]:
                if z not in seen:
                    seen.add(z)
                    todo.append(z)
    n = len(w)
    return any((f, n) in seen for f in spec["F"])


def accepts_with_empty_stack(spec, w):
    noop, push, pop = _moves(spec, w)
    nodes = _nodes(spec, w, noop, push, pop)
    B, W = _balanced(noop, push, pop, nodes)
    n = len(w)
    return any((f, n) in B[(spec["q0"], 0)] for f in spec["F"])


def lang_upto(spec, n, empty_stack=False):
    out = set()
    layer = [""]
    fn = accepts_with_empty_stack if empty_stack else accepts
    for k in range(n + 1):
        for w in layer:
            if fn(spec, w):
                out.add(w)
        layer = [w + a for w in layer for a in sorted(spec["S"])]
    return out


# ---- configuration-level semantics (stacks as tuples, top at the end) ----

def _step_conf(spec, conf, label):
    q, st = conf
    eps = spec["eps"]
    out = set()
    for p, a, u, q2, v in spec["d"]:
        if p != q or a != label:
            continue
        if u != eps:
            if not st or st[-1] != u:
                continue
            s2 = st[:-1]
        else:
            s2 = st
        if v != eps:
            s2 = s2 + (v,)
        out.add((q2, s2))
    return out


def eps_closure(spec, confs, cap):
    """True eps-closure of a set of configurations; stops as soon as it exceeds cap elements.
    Returns (set, complete?)."""
    seen = set(confs)
    todo = deque(seen)
    while todo:
        if len(seen) > cap:
            return seen, False
        c = todo.popleft()
        for c2 in _step_conf(spec, c, spec["eps"]):
            if c2 not in seen:
                seen.add(c2)
                todo.append(c2)
    return seen, len(seen) <= cap


def closure_sizes(spec, w, cap):
    """Sizes of the eps-closures that a closure/step alternation over w computes (true semantics).
    A size of cap+1 means 'more than cap'.  Returns list of sizes (one per closure)."""
    sizes = []
    C, ok = eps_closure(spec, {(spec["q0"], ())}, cap)
    sizes.append(len(C) if ok else cap + 1)
    if not ok:
        return sizes
    for a in w:
        R = set()
        for c in C:
            R |= _step_conf(spec, c, a)
        C, ok = eps_closure(spec, R, cap)
        sizes.append(len(C) if ok else cap + 1)
        if not ok:
            return sizes
    return sizes


def accepts_bounded(spec, w, max_stack):
    """Second implementation (self-test): BFS over configurations with stack height <= max_stack."""
    eps = spec["eps"]
    start = (spec["q0"], 0, ())
    seen = {start}
    todo = deque([start])
    n = len(w)
    F = set(spec["F"])
    while todo:
        q, i, st = todo.popleft()
        if i == n and q in F:
            return True
        labels = [(eps, i)] + ([(w[i], i + 1)] if i < n else [])
        for lab, j in labels:
            for q2, s2 in _step_conf(spec, (q, st), lab):
                if len(s2) <= max_stack:
                    c = (q2, j, s2)
                    if c not in seen:
                        seen.add(c)
                        todo.append(c)
    return False


def valid(spec):
    Q, S, G, eps = set(spec["Q"]), set(spec["S"]), set(spec["G"]), spec["eps"]
    if spec["q0"] not in Q:
        return "q0 not in Q"
    if not set(spec["F"]) <= Q:
        return "F not a subset of Q"
    if eps in S or eps in G:
        return "epsilon in an alphabet"
    for p, a, u, q, v in spec["d"]:
        if p not in Q or q not in Q:
            return "transition outside Q: %r" % ((p, a, u, q, v),)
        if a != eps and a not in S:
            return "input symbol %r not in Sigma" % a
        if (u != eps and u not in G) or (v != eps and v not in G):
            return "stack symbol outside Gamma in %r" % ((p, a, u, q, v),)
    return None


def check_run(spec, run, w):
    """run: list of (state, unread, stack-list).  Returns an error string or None."""
    eps = spec["eps"]
    if not run:
        return "empty run"
    q, rest, st = run[0]
    if q != spec["q0"] or rest != w or list(st) != []:
        return "first row %r is not the initial configuration" % (run[0],)
    trans = {}
    for p, a, u, q2, v in spec["d"]:
        trans.setdefault(p, []).append((a, u, q2, v))
    for k in range(len(run) - 1):
        (q, rest, st), (q2, rest2, st2) = run[k], run[k + 1]
        st, st2 = tuple(st), tuple(st2)
        if rest2 == rest:
            lab = eps
        elif rest and rest2 == rest[1:]:
            lab = rest[0]
        else:
            return "step %d: unread input %r -> %r does not shrink from the front" % (k, rest, rest2)
        if (q2, st2) not in _step_conf(spec, (q, st), lab):
            return "step %d: (%r,%r,%r) -> (%r,%r,%r) is not a transition" % (k, q, rest, list(st), q2, rest2, list(st2))
    q, rest, st = run[-1]
    if rest != "":
        return "last row has unread input %r" % rest
    if q not in spec["F"]:
        return "last state %r is not accepting" % q
    return None
