"""Reference one-tape Turing machine simulator (Sipser semantics).  No library import.

Spec: {"Q":[..], "S":[..], "G":[..], "d":[[p,a,q,b,dir],..], "q0":.., "acc":.., "rej":.., "blank":..}
"""


def run(spec, w, k):
    """Returns (verdict, trace).  verdict: True / False / None (undecided within k steps).
    trace: list of (state, tape-as-list up to the last non-blank cell or the head, head)."""
    blank, acc, rej = spec["blank"], spec["acc"], spec["rej"]
    d = {(p, a): (q, b, m) for p, a, q, b, m in spec["d"]}
    tape = dict(enumerate(w))
    head = 0
    q = spec["q0"]

    def view():
        hi = max([i for i, s in tape.items() if s != blank] + [head])
        return (q, [tape.get(i, blank) for i in range(hi + 1)], head)

    trace = [view()]
    steps = 0
    while True:
        if q == acc:
            return True, trace
        if q == rej:
            return False, trace
        if steps >= k:
            return None, trace
        a = tape.get(head, blank)
        if (q, a) in d:
            q, b, m = d[q, a]
        else:
            q, b, m = rej, a, "R"
        tape[head] = b
        head = max(head - 1, 0) if m == "L" else head + 1
        steps += 1
        trace.append(view())


def run2(spec, w, k):
    """Second implementation (self-test): two-stack tape."""
    blank, acc, rej = spec["blank"], spec["acc"], spec["rej"]
    left = []                      # cells left of the head, nearest last
    right = list(reversed(w))      # head cell on top
    q = spec["q0"]
    steps = 0
    table = {}
    for p, a, q2, b, m in spec["d"]:
        table[(p, a)] = (q2, b, m)
    while q not in (acc, rej) and steps < k:
        a = right.pop() if right else blank
        q, b, m = table.get((q, a), (rej, a, "R"))
        if m == "R":
            left.append(b)
        else:
            right.append(b)
            if left:
                right.append(left.pop())
        steps += 1
    return True if q == acc else (False if q == rej else None)


def valid(spec):
    Q, S, G = set(spec["Q"]), set(spec["S"]), set(spec["G"])
    if spec["q0"] not in Q or spec["acc"] not in Q or spec["rej"] not in Q:
        return "initial/accept/reject state not in Q"
    if spec["acc"] == spec["rej"]:
        return "accept == reject"
    if spec["blank"] in S or spec["blank"] not in G or not S <= G:
        return "alphabet conditions violated"
    for p, a, q, b, m in spec["d"]:
        if p not in Q or q not in Q or a not in G or b not in G or m not in ("L", "R"):
            return "bad transition %r" % ((p, a, q, b, m),)
    return None
