"""Reference semantics of context-free grammars (no library import).

Spec: {"V":[..], "T":[..], "R":[[A,[x1,..,xk]],..], "S":A}; a right-hand-side symbol is a variable iff it is in V.
"""


def span_table(spec, w):
    """Least fixpoint: set of (A,i,j) such that A =>* w[i:j], for arbitrary rules (eps, unit, cycles)."""
    V = set(spec["V"])
    n = len(w)
    T = set()
    changed = True
    while changed:
        changed = False
        for A, rhs in spec["R"]:
            for i in range(n + 1):
                ends = {i}
                for X in rhs:
                    if X in V:
                        ends = {j for e in ends for j in range(e, n + 1) if (X, e, j) in T}
                    else:
                        ends = {e + 1 for e in ends if e < n and w[e] == X}
                    if not ends:
                        break
                for j in ends:
                    if (A, i, j) not in T:
                        T.add((A, i, j))
                        changed = True
    return T


def derives(spec, A, w):
    return (A, 0, len(w)) in span_table(spec, w)


def accepts(spec, w):
    return derives(spec, spec["S"], w)


def lang_upto(spec, n, start=None):
    """{w : |w| <= n, S =>* w} by a fixpoint over word sets per variable (second formulation)."""
    V = set(spec["V"])
    L = {A: set() for A in V}
    changed = True
    while changed:
        changed = False
        for A, rhs in spec["R"]:
            cur = {""}
            for X in rhs:
                part = L[X] if X in V else {X}
                cur = {u + v for u in cur for v in part if len(u) + len(v) <= n}
                if not cur:
                    break
            new = cur - L[A]
            if new:
                L[A] |= new
                changed = True
    return L[start if start is not None else spec["S"]]


def valid(spec):
    V, T = set(spec["V"]), set(spec["T"])
    if spec["S"] not in V:
        return "start variable not in V"
    if V & T:
        return "V and Sigma overlap"
    for A, rhs in spec["R"]:
        if A not in V:
            return "rule for undeclared variable %r" % A
        for x in rhs:
            if x not in V and x not in T:
                return "undeclared symbol %r in rule %s -> %s" % (x, A, rhs)
    return None


def is_cnf(spec, start_on_rhs_allowed=False):
    """Chomsky normal form (Sipser): A -> BC (B, C not the start variable), A -> a, S -> eps."""
    V = set(spec["V"])
    S = spec["S"]
    for A, rhs in spec["R"]:
        if len(rhs) == 0:
            if A != S:
                return "eps-rule for non-start variable %s" % A
        elif len(rhs) == 1:
            if rhs[0] in V:
                return "unit rule %s -> %s" % (A, rhs[0])
        elif len(rhs) == 2:
            if rhs[0] not in V or rhs[1] not in V:
                return "terminal in binary rule %s -> %s" % (A, rhs)
            if not start_on_rhs_allowed and S in rhs:
                return "start variable on a right-hand side: %s -> %s" % (A, rhs)
        else:
            return "long rule %s -> %s" % (A, rhs)
    return None


def check_derivation(spec, forms, w, mode):
    """forms: list of lists of symbols.  mode in {'leftmost','rightmost','any'}.  Returns error or None."""
    V = set(spec["V"])
    rules = {}
    for A, rhs in spec["R"]:
        rules.setdefault(A, []).append(list(rhs))
    if not forms or list(forms[0]) != [spec["S"]]:
        return "first form is not [S]"
    for k in range(len(forms) - 1):
        x, y = list(forms[k]), list(forms[k + 1])
        pos = [i for i, s in enumerate(x) if s in V]
        if not pos:
            return "step %d: no variable left in %r" % (k, x)
        cand = pos if mode == "any" else ([pos[0]] if mode == "leftmost" else [pos[-1]])
        ok = False
        for i in cand:
            for rhs in rules.get(x[i], []):
                if x[:i] + rhs + x[i + 1:] == y:
                    ok = True
        if not ok:
            return "step %d: %r => %r is not a %s derivation step" % (k, "".join(x), "".join(y), mode)
    last = list(forms[-1])
    if last != list(w):
        return "last form %r is not the word %r" % ("".join(last), w)
    return None


def reduce(spec):
    """Restrict to productive and reachable symbols (language unchanged)."""
    V = set(spec["V"])
    prod = set()
    ch = True
    while ch:
        ch = False
        for A, rhs in spec["R"]:
            if A not in prod and all(x in prod or x not in V for x in rhs):
                prod.add(A)
                ch = True
    R = [[A, rhs] for A, rhs in spec["R"] if A in prod and all(x in prod or x not in V for x in rhs)]
    reach = {spec["S"]}
    todo = [spec["S"]]
    while todo:
        A = todo.pop()
        for B, rhs in R:
            if B == A:
                for x in rhs:
                    if x in V and x not in reach:
                        reach.add(x)
                        todo.append(x)
    R = [[A, rhs] for A, rhs in R if A in reach]
    return {"V": sorted(reach), "T": list(spec["T"]), "R": R, "S": spec["S"]}
